#!/bin/bash
# seedtest.sh <seed-dir> <check ids...> : run checks against a scratch worktree of /repo with the seeded change applied
# (VERIF_REPO points the checks at the worktree; /repo itself is not touched). Prints per check: rc and violation signatures.
d=$(readlink -f "$1"); shift
wt=/tmp/seedtest-$$
git -C /repo worktree add -q --detach $wt HEAD || exit 2
trap 'git -C /repo worktree remove --force '$wt' >/dev/null 2>&1' EXIT
git -C $wt apply "$d/patch.diff" || { echo "cannot apply"; exit 2; }
cd /verif
for c in "$@"; do
  out=$(VERIF_REPO=$wt ./check $c quick 2>&1); rc=$?
  echo "$c rc=$rc: $(echo "$out" | grep -c '^VIOLATION') violations"
  echo "$out" | grep -A1 '^VIOLATION' | grep 'signature' | sort | uniq -c | head -12
  echo "$out" | grep 'HARNESS-BUILD-FAILED\|NONDETERMINISM\|WORKER-DIED' | head -3
done
