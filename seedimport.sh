#!/bin/bash
# seedimport.sh <Cnn> <suffix> : copy a sub-agent's deliverables from /tmp/seed2/<Cnn> to seeded/<Cnn>-<suffix>, confirm with seedverify.sh
id=$1; suf=$2; src=/tmp/seed${SEEDROUND:-2}/$id; dst=/verif/seeded/$id-$suf
mkdir -p $dst; rm -rf $dst/demo
cp $src/patch.diff $dst/; cp -r $src/demo $dst/
python3 - <<PY
import json
d=json.load(open('$src/meta.json'))
d['origin']='independent sub-agent given only the property text and a scratch worktree (second round: asked for a change of a different kind than $id-a)'
json.dump(d,open('$dst/meta.json','w'),indent=1)
PY
/verif/seedverify.sh $dst 2>&1 | grep -v WARNING | tail -4
