// vgen generates the build overlay used by every check.
//
// It never copies stale repository code: every replaced file is the *current*
// file of the working tree with a mechanical, type-directed rewrite applied.
//
//	T1  map-range rewrite   for k, v := range m  ->  range mapiter.Seq2(m, "site")
//	T2  import rewrite      "sync" -> pkg/verif/vsync   (named files only)
//	T3  go/chan rewrite     go f() -> sched.Go(...), <-ch -> sched.Recv(ch), close(ch) -> sched.Close(ch)
//	T4  import rewrite      "os" -> pkg/verif/vos      (named files only)
//
// plus the injected harness files (a mirror tree of repository paths).
package main

import (
	"bytes"
	"encoding/json"
	"flag"
	"fmt"
	"go/ast"
	"go/format"
	"go/token"
	"go/types"
	"os"
	"path/filepath"
	"sort"
	"strconv"
	"strings"

	"golang.org/x/tools/go/ast/astutil"
	"golang.org/x/tools/go/packages"
)

const modPath = "github.com/containers/nri-plugins"

type multi []string

func (m *multi) String() string     { return strings.Join(*m, ",") }
func (m *multi) Set(s string) error { *m = append(*m, s); return nil }

var (
	repo    = flag.String("repo", "/repo", "repository working tree")
	inject  = flag.String("inject", "/verif/inject", "tree of files to inject (mirrors repo paths)")
	out     = flag.String("out", "", "output directory")
	noT1    = flag.Bool("no-maprange", false, "skip the map-range rewrite")
	syncF   multi
	osF     multi
	schedF  multi
	timeF   multi
	verbose = flag.Bool("v", false, "verbose")
)

func main() {
	flag.Var(&syncF, "sync", "repo-relative file whose \"sync\" import is redirected to vsync")
	flag.Var(&osF, "os", "repo-relative file whose \"os\" import is redirected to vos")
	flag.Var(&timeF, "time", "repo-relative file whose \"time\" import is redirected to vtime (timers the harness fires)")
	flag.Var(&schedF, "sched", "repo-relative file whose go statements / channel ops are redirected to sched")
	flag.Parse()
	if *out == "" {
		fatal("need -out")
	}
	os.Setenv("GOFLAGS", "-mod=mod")
	os.Setenv("GOPROXY", "off")
	os.Setenv("GOSUMDB", "off")
	os.Setenv("GOTOOLCHAIN", "local")

	replace := map[string]string{}
	srcDir := filepath.Join(*out, "src")
	must(os.MkdirAll(srcDir, 0o755))

	// injected files
	nInj := 0
	must(filepath.Walk(*inject, func(p string, fi os.FileInfo, err error) error {
		if err != nil {
			return err
		}
		if fi.IsDir() {
			return nil
		}
		rel, _ := filepath.Rel(*inject, p)
		if strings.HasSuffix(rel, ".go.in") {
			rel = strings.TrimSuffix(rel, ".in")
		}
		replace[filepath.Join(*repo, rel)] = p
		nInj++
		return nil
	}))

	special := map[string]map[string]bool{}
	add := func(kind string, l []string) {
		for _, f := range l {
			abs := filepath.Join(*repo, f)
			if special[abs] == nil {
				special[abs] = map[string]bool{}
			}
			special[abs][kind] = true
		}
	}
	add("sync", syncF)
	add("os", osF)
	add("time", timeF)
	add("sched", schedF)

	nSites, nFiles := 0, 0
	siteTypes := map[string]int{}
	// pkg/topology is a separate go 1.20 module (device topology hints); the
	// harness containers have no devices or mounts, so it is left untouched.
	for _, dir := range []string{*repo} {
		cfg := &packages.Config{
			Mode: packages.NeedName | packages.NeedFiles | packages.NeedSyntax | packages.NeedTypes |
				packages.NeedTypesInfo | packages.NeedImports | packages.NeedDeps | packages.NeedCompiledGoFiles,
			Dir:        dir,
			BuildFlags: []string{"-tags=verif"},
			Env:        os.Environ(),
		}
		pats := []string{"./cmd/plugins/...", "./pkg/..."}
		if dir != *repo {
			pats = []string{"./..."}
		}
		pkgs, err := packages.Load(cfg, pats...)
		if err != nil {
			fatal("load: %v", err)
		}
		for _, pkg := range pkgs {
			if strings.Contains(pkg.PkgPath, "/generated/") || strings.Contains(pkg.PkgPath, "/pkg/verif/") {
				continue
			}
			if dir == *repo && strings.HasPrefix(pkg.PkgPath, modPath+"/pkg/topology") {
				continue
			}
			if len(pkg.Errors) > 0 {
				// A tree that does not type-check cannot be rewritten; the go build will report it.
				for _, e := range pkg.Errors {
					fmt.Fprintf(os.Stderr, "vgen: %s: %v\n", pkg.PkgPath, e)
				}
				fatal("package %s has errors", pkg.PkgPath)
			}
			for i, f := range pkg.Syntax {
				name := pkg.CompiledGoFiles[i]
				if !strings.HasPrefix(name, *repo) || strings.HasSuffix(name, "_test.go") {
					continue
				}
				if _, injected := replace[name]; injected {
					continue
				}
				changed := false
				sp := special[name]
				if !*noT1 {
					n := rewriteMapRanges(pkg, f, name, siteTypes)
					if n > 0 {
						nSites += n
						changed = true
					}
				}
				if sp["sched"] {
					rewriteSched(pkg, f)
					changed = true
				}
				if sp["sync"] {
					if !astutil.RewriteImport(pkg.Fset, f, "sync", modPath+"/pkg/verif/vsync") {
						fatal("%s does not import sync", name)
					}
					renameImport(f, modPath+"/pkg/verif/vsync", "sync")
					changed = true
				}
				if sp["time"] {
					if !astutil.RewriteImport(pkg.Fset, f, "time", modPath+"/pkg/verif/vtime") {
						fatal("%s does not import time", name)
					}
					renameImport(f, modPath+"/pkg/verif/vtime", "time")
					changed = true
				}
				if sp["os"] {
					if !astutil.RewriteImport(pkg.Fset, f, "os", modPath+"/pkg/verif/vos") {
						fatal("%s does not import os", name)
					}
					renameImport(f, modPath+"/pkg/verif/vos", "os")
					changed = true
				}
				delete(special, name)
				if !changed {
					continue
				}
				var buf bytes.Buffer
				if err := format.Node(&buf, pkg.Fset, f); err != nil {
					fatal("format %s: %v", name, err)
				}
				rel, _ := filepath.Rel(*repo, name)
				dst := filepath.Join(srcDir, rel)
				must(os.MkdirAll(filepath.Dir(dst), 0o755))
				must(os.WriteFile(dst, buf.Bytes(), 0o644))
				replace[name] = dst
				nFiles++
			}
		}
	}
	for f := range special {
		fatal("special file %s was not found in any loaded package", f)
	}
	ov, _ := json.MarshalIndent(map[string]any{"Replace": replace}, "", " ")
	must(os.WriteFile(filepath.Join(*out, "overlay.json"), ov, 0o644))
	if *verbose {
		keys := make([]string, 0, len(siteTypes))
		for k := range siteTypes {
			keys = append(keys, k)
		}
		sort.Strings(keys)
		for _, k := range keys {
			fmt.Printf("keytype %-60s %d\n", k, siteTypes[k])
		}
	}
	fmt.Printf("vgen: injected=%d rewritten_files=%d maprange_sites=%d\n", nInj, nFiles, nSites)
}

func renameImport(f *ast.File, path, name string) {
	for _, imp := range f.Imports {
		if p, _ := strconv.Unquote(imp.Path.Value); p == path {
			if imp.Name == nil {
				imp.Name = ast.NewIdent(name)
			}
		}
	}
}

const mapiterPath = modPath + "/pkg/verif/mapiter"

func rewriteMapRanges(pkg *packages.Package, f *ast.File, fname string, siteTypes map[string]int) int {
	n := 0
	rel, _ := filepath.Rel(*repo, fname)
	ast.Inspect(f, func(nd ast.Node) bool {
		rs, ok := nd.(*ast.RangeStmt)
		if !ok {
			return true
		}
		t := pkg.TypesInfo.TypeOf(rs.X)
		if t == nil {
			return true
		}
		mt, ok := t.Underlying().(*types.Map)
		if !ok {
			return true
		}
		siteTypes[types.TypeString(mt.Key(), nil)]++
		pos := pkg.Fset.Position(rs.Pos())
		site := fmt.Sprintf("%s:%d", rel, pos.Line)
		rs.X = &ast.CallExpr{
			Fun:  &ast.SelectorExpr{X: ast.NewIdent("verifmapiter"), Sel: ast.NewIdent("Seq2")},
			Args: []ast.Expr{rs.X, &ast.BasicLit{Kind: token.STRING, Value: strconv.Quote(site)}},
		}
		n++
		return true
	})
	if n > 0 {
		astutil.AddNamedImport(pkg.Fset, f, "verifmapiter", mapiterPath)
	}
	return n
}

const schedPath = modPath + "/pkg/verif/sched"

// rewriteSched turns goroutine creation and channel operations into calls the
// controlled scheduler can see.
func rewriteSched(pkg *packages.Package, f *ast.File) {
	sel := func(name string) ast.Expr {
		return &ast.SelectorExpr{X: ast.NewIdent("verifsched"), Sel: ast.NewIdent(name)}
	}
	astutil.Apply(f, func(c *astutil.Cursor) bool {
		if _, inSelect := c.Parent().(*ast.CommClause); inSelect && c.Name() == "Comm" {
			// the communication of a select case must stay a native channel operation (a polling select sees what is in
			// the channel at that moment; the scheduler decides when the sender runs)
			return false
		}
		switch n := c.Node().(type) {
		case *ast.RangeStmt:
			// for v := range ch { body } -> for { v, ok := verifsched.RecvOK(ch); if !ok { break }; body }
			// (a native range over a channel would block the whole cooperative scheduler)
			if t := pkg.TypesInfo.TypeOf(n.X); t != nil {
				if _, isChan := t.Underlying().(*types.Chan); isChan && (n.Tok == token.DEFINE || n.Key == nil) {
					var v ast.Expr = ast.NewIdent("_")
					if n.Key != nil {
						v = n.Key
					}
					okID := ast.NewIdent("verifRecvOK")
					recv := &ast.AssignStmt{Lhs: []ast.Expr{v, okID}, Tok: token.DEFINE, Rhs: []ast.Expr{&ast.CallExpr{Fun: sel("RecvOK"), Args: []ast.Expr{n.X}}}}
					brk := &ast.IfStmt{Cond: &ast.UnaryExpr{Op: token.NOT, X: okID}, Body: &ast.BlockStmt{List: []ast.Stmt{&ast.BranchStmt{Tok: token.BREAK}}}}
					body := &ast.BlockStmt{List: append([]ast.Stmt{recv, brk}, n.Body.List...)}
					c.Replace(&ast.ForStmt{Body: body})
					return true
				}
			}
		case *ast.GoStmt:
			// go f(args) -> verifsched.Go(func() { f(args) })
			c.Replace(&ast.ExprStmt{X: &ast.CallExpr{
				Fun: sel("Go"),
				Args: []ast.Expr{&ast.FuncLit{
					Type: &ast.FuncType{Params: &ast.FieldList{}},
					Body: &ast.BlockStmt{List: []ast.Stmt{&ast.ExprStmt{X: n.Call}}},
				}},
			}})
		case *ast.UnaryExpr:
			if n.Op == token.ARROW {
				c.Replace(&ast.CallExpr{Fun: sel("Recv"), Args: []ast.Expr{n.X}})
			}
		case *ast.CallExpr:
			if id, ok := n.Fun.(*ast.Ident); ok && id.Name == "close" && len(n.Args) == 1 {
				if _, isBuiltin := pkg.TypesInfo.Uses[id].(*types.Builtin); isBuiltin {
					n.Fun = sel("Close")
				}
			}
			if id, ok := n.Fun.(*ast.Ident); ok && id.Name == "make" && len(n.Args) >= 1 {
				if _, isBuiltin := pkg.TypesInfo.Uses[id].(*types.Builtin); isBuiltin {
					if _, isChan := pkg.TypesInfo.TypeOf(n.Args[0]).Underlying().(*types.Chan); isChan {
						// make(chan T) -> verifsched.MakeChan(make(chan T))
						inner := &ast.CallExpr{Fun: n.Fun, Args: n.Args}
						c.Replace(&ast.CallExpr{Fun: sel("MakeChan"), Args: []ast.Expr{inner}})
						return false
					}
				}
			}
		}
		return true
	}, nil)
	astutil.AddNamedImport(pkg.Fset, f, "verifsched", schedPath)
}

func must(err error) {
	if err != nil {
		fatal("%v", err)
	}
}

func fatal(f string, a ...any) {
	fmt.Fprintf(os.Stderr, "vgen: "+f+"\n", a...)
	os.Exit(2)
}
