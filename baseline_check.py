#!/usr/bin/env python3
"""Runs the repository's baseline test command (guard off) and checks that every stable-pass test of BASELINE.json still passes."""
import json, subprocess, sys, os
b = json.load(open('/root/.vp/BASELINE.json'))
want = set(b['stable_pass'])
env = dict(os.environ, GOFLAGS='-mod=mod', GOPROXY='off', GOSUMDB='off', GOTOOLCHAIN='local')
got = {}
for m in open('/w/out/gomods.txt').read().split():
    p = subprocess.run(['go', 'test', '-mod=mod', '-json', '-vet=off', '-count=1', '-timeout', '25m', './...'], cwd=os.path.join('/repo', m), env=env, stdout=subprocess.PIPE, stderr=subprocess.DEVNULL, text=True)
    for line in p.stdout.splitlines():
        try:
            e = json.loads(line)
        except Exception:
            continue
        if e.get('Test') and e.get('Action') in ('pass', 'fail'):
            got[e['Package'] + '::' + e['Test']] = e['Action']
missing = sorted(t for t in want if got.get(t) != 'pass')
print('stable_pass=%d passing_now=%d missing=%d' % (len(want), sum(1 for t in want if got.get(t) == 'pass'), len(missing)))
for t in missing[:20]:
    print('  NOT PASSING:', t, got.get(t))
sys.exit(1 if missing else 0)
