#!/bin/bash
# Runs every check of one tier on the current tree and prints one line per check.
tier=${1:-quick}
cd "$(dirname "$0")"
for id in $(python3 -c "from checks import CHECKS; print(' '.join(sorted(CHECKS)))"); do
  out=$(./check $id $tier 2>&1); rc=$?
  echo "$id rc=$rc $(echo "$out" | grep -c '^VIOLATION') violations, $(echo "$out" | grep -c '^KNOWN-FINDING') known | $(echo "$out" | grep 'vrun\] C' | sed 's/.*rc=[0-9] //')"
done
