#!/usr/bin/env python3
"""Orchestrator: ./check <ID> <quick|thorough> | ./check replay <file> | ./check setup

For one property it (1) regenerates the build overlay from /repo's current
working tree (vgen), (2) builds the harness test binaries with the overlay and
the `verif` tag, (3) runs them as sharded worker processes, (4) merges worker
results, applies known-findings.json, writes evidence/<ID>.json and replay
files, and (5) exits 0 / 1 (VIOLATION) / 2 (harness broken).
"""
import hashlib
import json
import os
import shutil
import subprocess
import sys
import time

VERIF = os.path.dirname(os.path.abspath(__file__))
REPO = os.environ.get("VERIF_REPO", "/repo")
dev_stage = os.environ.get("VERIF_STAGE", "")  # development only: run one stage (by test name) of a check, write no evidence
WORK = os.path.join(VERIF, ".work")
MOD = "github.com/containers/nri-plugins"
NCPU = os.cpu_count() or 4

sys.path.insert(0, VERIF)
from checks import CHECKS  # noqa: E402


def goenv():
    e = dict(os.environ)
    e.update(GOFLAGS="-mod=mod", GOPROXY="off", GOSUMDB="off", GOTOOLCHAIN="local")
    return e


def log(*a):
    print("[vrun]", *a, file=sys.stderr, flush=True)


def tree_hash(extra):
    """Hash of every first-party .go file in the repo working tree + injected files + vgen flags."""
    h = hashlib.sha256()
    roots = [os.path.join(REPO, "cmd"), os.path.join(REPO, "pkg"), os.path.join(VERIF, "inject"),
             os.path.join(VERIF, "tools", "vgen")]
    files = [os.path.join(REPO, "go.mod"), os.path.join(REPO, "go.sum")]
    for r in roots:
        for d, dn, fn in os.walk(r):
            dn.sort()
            for f in sorted(fn):
                if f.endswith(".go") or f.endswith(".go.in") or f in ("go.mod",):
                    files.append(os.path.join(d, f))
    for f in files:
        try:
            with open(f, "rb") as fh:
                h.update(f.encode() + b"\0" + fh.read() + b"\0")
        except OSError:
            pass
    h.update(json.dumps(extra, sort_keys=True).encode())
    return h.hexdigest()[:20]


def ensure_vgen():
    vgen = os.path.join(VERIF, "bin", "vgen")
    src = os.path.join(VERIF, "tools", "vgen", "main.go")
    if not os.path.exists(vgen) or os.path.getmtime(vgen) < os.path.getmtime(src):
        os.makedirs(os.path.dirname(vgen), exist_ok=True)
        r = subprocess.run(["go", "build", "-o", vgen, "./vgen"], cwd=os.path.join(VERIF, "tools"), env=goenv())
        if r.returncode != 0:
            log("HARNESS-BUILD-FAILED: vgen")
            sys.exit(2)
    return vgen


# rewrites applied in every build (the shims pass through when no harness hooks them)
BASE_VGEN = ["-os", "pkg/resmgr/cache/cache.go", "-os", "pkg/resmgr/cache/utils.go", "-sync", "pkg/resmgr/resource-manager.go", "-sync", "pkg/metrics/metrics.go", "-sched", "pkg/resmgr/cache/pod.go", "-sched", "pkg/resmgr/cache/cache.go", "-time", "pkg/agent/watch/object.go"]


def gen_overlay(flags):
    flags = BASE_VGEN + list(flags)
    vgen = ensure_vgen()
    key = tree_hash(flags)
    out = os.path.join(WORK, "ov-" + key)
    if os.path.exists(os.path.join(out, "overlay.json")):
        return out, key
    tmp = out + ".tmp%d" % os.getpid()
    shutil.rmtree(tmp, ignore_errors=True)
    cmd = [vgen, "-repo", REPO, "-inject", os.path.join(VERIF, "inject"), "-out", tmp] + flags
    e = goenv()
    e["GOMAXPROCS"] = "8"
    r = subprocess.run(cmd, env=e, stdout=subprocess.PIPE, stderr=subprocess.STDOUT, text=True)
    if r.returncode != 0:
        print(r.stdout, file=sys.stderr)
        log("HARNESS-BUILD-FAILED: vgen could not load/rewrite the tree")
        shutil.rmtree(tmp, ignore_errors=True)
        sys.exit(2)
    # fix paths inside overlay.json (generated under tmp)
    ovp = os.path.join(tmp, "overlay.json")
    ov = json.load(open(ovp))
    ov["Replace"] = {k: v.replace(tmp, out) for k, v in ov["Replace"].items()}
    json.dump(ov, open(ovp, "w"), indent=1)
    shutil.rmtree(out, ignore_errors=True)
    os.rename(tmp, out)
    # prune old overlays
    olds = sorted((d for d in os.listdir(WORK) if d.startswith("ov-") and ".tmp" not in d),
                  key=lambda d: os.path.getmtime(os.path.join(WORK, d)))
    for d in olds[:-6]:
        shutil.rmtree(os.path.join(WORK, d), ignore_errors=True)
    return out, key


def build(ovdir, key, pkg, race=False):
    name = pkg.strip("./").replace("/", "_") + (".race" if race else "") + (".cover" if os.environ.get("VERIF_COVERPKG") else "") + ".test"
    bdir = os.path.join(WORK, "bin-" + key)
    os.makedirs(bdir, exist_ok=True)
    out = os.path.join(bdir, name)
    if os.path.exists(out):
        return out
    def compile(tags):
        cmd = ["go", "test", "-c", "-tags", tags, "-vet=off", "-overlay", os.path.join(ovdir, "overlay.json"), "-o", out]
        if race:
            cmd.append("-race")
        if os.environ.get("VERIF_COVERPKG"):
            # on-demand vacuity check (coverage.sh): which lines of the code under test does the check execute at all
            cmd += ["-cover", "-covermode=set", "-coverpkg=" + os.environ["VERIF_COVERPKG"]]
        cmd.append(pkg)
        return subprocess.run(cmd, cwd=REPO, env=goenv(), stdout=subprocess.PIPE, stderr=subprocess.STDOUT, text=True)
    r = compile("verif")
    if (r.returncode != 0 or not os.path.exists(out)) and "pushPending" in r.stdout or "updateContainers" in r.stdout:
        # the one internal signature the harness depends on changed: rebuild with the adapter that does not call it
        log("harness adapted: internal push function changed shape, building with verif_nopush")
        r = compile("verif,verif_nopush")
    if r.returncode != 0 or not os.path.exists(out):
        print(r.stdout, file=sys.stderr)
        log("HARNESS-BUILD-FAILED: %s" % pkg)
        sys.exit(2)
    olds = sorted((d for d in os.listdir(WORK) if d.startswith("bin-")),
                  key=lambda d: os.path.getmtime(os.path.join(WORK, d)))
    for d in olds[:-6]:
        shutil.rmtree(os.path.join(WORK, d), ignore_errors=True)
    return out


def run_workers(binary, run, nshards, env, tag, timeout_s, cwd):
    """Start nshards processes of the test binary; return list of result dicts (or None for a dead worker)."""
    scratch = "/dev/shm/verif-%d-%s" % (os.getpid(), tag)
    shutil.rmtree(scratch, ignore_errors=True)
    os.makedirs(scratch)
    procs = []
    for i in range(nshards):
        e = dict(os.environ)
        e.update(env)
        e.update(VERIF_SHARD=str(i), VERIF_NSHARDS=str(nshards),
                 VERIF_OUT=os.path.join(scratch, "res-%d.json" % i),
                 VERIF_SCRATCH=os.path.join(scratch, "w%d" % i),
                 VERIF_DIR=VERIF)
        if binary.endswith(".race.test"):
            # free-running race-detector pass: real goroutines on all cores, reports collected from the log files
            e["VERIF_RACE_LOG"] = os.path.join(e["VERIF_SCRATCH"], "race")
            e["GORACE"] = "log_path=%s halt_on_error=0" % e["VERIF_RACE_LOG"]
            e.setdefault("GOMAXPROCS", "4")
        e.setdefault("GOMAXPROCS", "1")
        os.makedirs(e["VERIF_SCRATCH"], exist_ok=True)
        lf = open(os.path.join(scratch, "log-%d.txt" % i), "w")
        extra = []
        if os.environ.get("VERIF_COVERPKG"):
            os.makedirs(os.path.join(WORK, "cover"), exist_ok=True)
            extra = ["-test.coverprofile", os.path.join(WORK, "cover", "%s-%s-%d.out" % (tag, os.getpid(), i))]
        p = subprocess.Popen([binary, "-test.run", "^%s$" % run, "-test.timeout", "0", "-test.v"] + extra,
                             cwd=cwd, env=e, stdout=lf, stderr=subprocess.STDOUT)
        procs.append((p, lf))
    results = []
    t0 = time.time()
    for i, (p, lf) in enumerate(procs):
        left = max(1, timeout_s - (time.time() - t0))
        try:
            p.wait(timeout=left)
        except subprocess.TimeoutExpired:
            p.kill()
            p.wait()
        lf.close()
        res = None
        try:
            res = json.load(open(os.path.join(scratch, "res-%d.json" % i)))
        except Exception:
            pass
        logtxt = open(os.path.join(scratch, "log-%d.txt" % i), errors="replace").read()
        results.append(dict(res=res, rc=p.returncode, log=logtxt[-20000:]))
    shutil.rmtree(scratch, ignore_errors=True)
    return results


def load_known():
    p = os.path.join(VERIF, "known-findings.json")
    if not os.path.exists(p):
        return []
    return json.load(open(p)).get("findings", [])


def main():
    if len(sys.argv) >= 2 and sys.argv[1] == "setup":
        return setup()
    if len(sys.argv) >= 3 and sys.argv[1] == "replay":
        return replay(sys.argv[2])
    if len(sys.argv) < 3 or sys.argv[1] not in CHECKS or sys.argv[2] not in ("quick", "thorough"):
        print("usage: check <ID> <quick|thorough> | check replay <file> | check setup", file=sys.stderr)
        sys.exit(2)
    pid, tier = sys.argv[1], sys.argv[2]
    rc = run_check(pid, tier)
    sys.exit(rc)


def setup():
    ensure_vgen()
    flagsets = []
    pk = {}
    for pid, c in CHECKS.items():
        for st in c["stages"]:
            fl = tuple(st.get("vgen", []))
            pk.setdefault(fl, set()).add((st["pkg"], bool(st.get("race"))))
    for fl, pkgs in pk.items():
        ovdir, key = gen_overlay(list(fl))
        for pkg, race in sorted(pkgs):
            log("build", pkg, "race" if race else "")
            build(ovdir, key, pkg, race)
    return 0


def run_check(pid, tier, replay_file=None):
    c = CHECKS[pid]
    t0 = time.time()
    if not replay_file:
        import glob
        for old in glob.glob(os.path.join(VERIF, "replays", pid + "-*.json")):
            os.remove(old)
    seed = int(os.environ.get("VERIF_SEED", "0") or 0)
    merged = dict(states=0, transitions=0, evaluations=0, distinct_nontrivial=0, distinct_outcomes=0,
                  scenarios=0, exhaustive=True, caps=[], samples=[], notes=[], counters={})
    violations, nondet, broken = [], [], []
    for st in c["stages"]:
        if dev_stage and st["run"] != dev_stage:
            continue
        ovdir, key = gen_overlay(st.get("vgen", []))
        binary = build(ovdir, key, st["pkg"], bool(st.get("race")))
        env = dict(st.get("env", {}))
        env.update(VERIF_TIER=tier, VERIF_SEED=str(seed))
        tcfg = st.get(tier, {})
        env.update({k: str(v) for k, v in tcfg.get("env", {}).items()})
        nshards = tcfg.get("shards", st.get("shards", 1))
        nshards = min(nshards, NCPU)
        deadline = tcfg.get("deadline_s", 0)
        if deadline:
            env["VERIF_DEADLINE_S"] = str(deadline)
        if replay_file:
            env["VERIF_REPLAY"] = replay_file
            nshards = 1
        timeout_s = tcfg.get("timeout_s", 3600 if tier == "quick" else 6 * 3600)
        cwd = os.path.join(REPO, st["pkg"].lstrip("./"))
        results = run_workers(binary, st["run"], nshards, env, pid + "-" + st["run"], timeout_s, cwd)
        for i, r in enumerate(results):
            res = r["res"]
            raced = bool(st.get("race")) and res is not None and res.get("done") and res.get("violations")
            if res is None or not res.get("done") or (r["rc"] != 0 and not raced):
                # the worker died: report its in-flight state
                tail = r["log"][-3000:]
                if res is not None:
                    violations.extend(res.get("violations", []))
                    nondet.extend(res.get("nondeterminism", []))
                broken.append("stage %s shard %d exited rc=%s without finishing:\n%s" % (st["run"], i, r["rc"], tail))
                continue
            for k in ("states", "transitions", "evaluations", "distinct_nontrivial", "distinct_outcomes", "scenarios"):
                merged[k] += res.get(k, 0)
            if not res.get("exhaustive", True):
                merged["exhaustive"] = False
            merged["caps"].extend(res.get("caps") or [])
            for s in (res.get("samples") or []):
                if len(merged["samples"]) < 6:
                    merged["samples"].append(s)
            merged["notes"].extend((res.get("notes") or [])[:6])
            for k, v in (res.get("counters") or {}).items():
                merged["counters"][k] = merged["counters"].get(k, 0) + v
            violations.extend(res.get("violations") or [])
            nondet.extend(res.get("nondeterminism") or [])
            if replay_file:
                print(r["log"])

    if replay_file:
        for v in violations:
            print("REPLAYED property=%s signature=%s: %s" % (v["property"], v["signature"], v["detail"]))
        return 1 if violations else 0

    # classify violations against the committed known-findings list
    known = [k for k in load_known() if k.get("status", "known") == "known"]
    kf_hits, new = {}, {}
    for v in violations:
        sig = v["signature"]
        hit = None
        for k in known:
            if k["property"] == v["property"] and k["signature"] == sig:
                hit = k
                break
        if hit:
            kf_hits.setdefault((v["property"], sig), (hit, v))
        else:
            cur = new.get((v["property"], sig))
            if cur is None or len(v.get("trace") or []) < len(cur.get("trace") or []):
                new[(v["property"], sig)] = v
    for (prop, sig), (k, v) in sorted(kf_hits.items()):
        print("KNOWN-FINDING: property=%s [%s %s] %s" % (prop, k.get("id", ""), sig, k.get("what", sig)))
    rc = 0
    os.makedirs(os.path.join(VERIF, "replays"), exist_ok=True)
    for (prop, sig), v in sorted(new.items()):
        h = hashlib.sha256((prop + sig).encode()).hexdigest()[:10]
        path = os.path.join(VERIF, "replays", "%s-%s.json" % (prop, h))
        v["check"] = pid
        json.dump(v, open(path, "w"), indent=1)
        print("VIOLATION property=%s replay=%s" % (prop, path))
        print("  signature: %s\n  scenario: %s\n  trace: %s\n  detail: %s" % (
            sig, v.get("scenario"), json.dumps(v.get("trace")), v.get("detail")), file=sys.stderr)
        rc = 1
    if nondet:
        for n in nondet[:10]:
            log("NONDETERMINISM:", n)
        rc = max(rc, 2) if rc != 1 else 1
    if broken:
        for b in broken:
            log("WORKER-DIED:", b)
        if rc == 0:
            rc = 2

    wall = time.time() - t0
    cov = dict(
        states=merged["states"], transitions=merged["transitions"],
        traces_validated_against_impl=merged["transitions"] if c["level"] == "model_checking" else merged["evaluations"],
        evaluations=merged["evaluations"], distinct_nontrivial=merged["distinct_nontrivial"],
        distinct_outcomes=merged["distinct_outcomes"], scenarios=merged["scenarios"],
        rule=c["rule"], samples=merged["samples"] or ["(no sample recorded)"],
        exhaustive=merged["exhaustive"], caps=sorted(set(merged["caps"]))[:20], bound=c.get("bound", {}).get(tier, ""),
        counters=merged["counters"], notes=merged["notes"][:12],
        known_findings_hit=sorted("%s %s" % k for k in kf_hits), new_violations=sorted("%s %s" % k for k in new),
        nondeterminism=nondet[:5], broken=[b[:400] for b in broken[:5]],
        explanation=c.get("explanation", ""),
    )
    ev = dict(property_id=pid, tier=tier, seed=seed, level=c["level"], coverage=cov,
              assumptions=c.get("assumptions", []), wall_s=round(wall, 2), violations=len(new))
    if not dev_stage:  # a development run of a single stage never replaces the evidence of the whole check
        os.makedirs(os.path.join(VERIF, "evidence"), exist_ok=True)
        json.dump(ev, open(os.path.join(VERIF, "evidence", pid + ".json"), "w"), indent=1)
    else:
        json.dump(ev, open(os.path.join(WORK, "dev-" + pid + ".json"), "w"), indent=1)
    log("%s %s: rc=%d states=%d transitions=%d evaluations=%d nontrivial=%d outcomes=%d exhaustive=%s wall=%.1fs" % (
        pid, tier, rc, merged["states"], merged["transitions"], merged["evaluations"], merged["distinct_nontrivial"],
        merged["distinct_outcomes"], merged["exhaustive"], wall))
    return rc


def replay(path):
    v = json.load(open(path))
    pid = v.get("check") or v["property"]
    rc = run_check(pid, "quick", replay_file=os.path.abspath(path))
    sys.exit(rc)


if __name__ == "__main__":
    main()
