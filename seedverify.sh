#!/bin/bash
# seedverify.sh <seed-dir> : confirm a seeded change in a fresh scratch worktree:
#   demo passes without the patch, fails with it; project builds; baseline tests of touched packages still pass.
set -u
src=$(readlink -f "$1")
export GOFLAGS=-mod=mod GOPROXY=off GOSUMDB=off GOTOOLCHAIN=local
wt=/tmp/seedverify-$$
git -C /repo worktree add -q --detach $wt HEAD || exit 2
trap 'git -C /repo worktree remove --force '$wt' >/dev/null 2>&1' EXIT
cd $wt
cp -r $src/demo/. $wt/ 2>/dev/null
demo_cmd=$(python3 -c "
import json,re
c=json.load(open('$src/meta.json'))['demo_cmd']
c=re.sub(r'/tmp/seed[2345678]?/C[0-9]+', '$wt', c)
print(c)")
echo "== demo without the change: $demo_cmd"
( eval "$demo_cmd" ) > /tmp/seedverify.out 2>&1; rc_clean=$?
tail -3 /tmp/seedverify.out
git apply $src/patch.diff || { echo "PATCH-DOES-NOT-APPLY"; exit 2; }
echo "== build with the change"
go build ./... 2>&1 | tail -3; rc_build=${PIPESTATUS[0]}
echo "== demo with the change"
( eval "$demo_cmd" ) > /tmp/seedverify.out 2>&1; rc_seeded=$?
tail -5 /tmp/seedverify.out
echo "== existing tests with the change (demo files removed)"
find . -name 'seeded_demo*' -delete
pkgs=$(git diff --name-only | xargs -n1 dirname | sort -u | sed 's|^|./|' | tr '\n' ' ')
python3 - <<PY
import json, subprocess, os
b = json.load(open('/root/.vp/BASELINE.json'))
want = set(b['stable_pass'])
env = dict(os.environ)
p = subprocess.run(['go','test','-json','-vet=off','-count=1','./...'], cwd='$wt', env=env, stdout=subprocess.PIPE, stderr=subprocess.DEVNULL, text=True)
got = {}
for line in p.stdout.splitlines():
    try: e = json.loads(line)
    except Exception: continue
    if e.get('Test') and e.get('Action') in ('pass','fail'):
        got[e['Package']+'::'+e['Test']] = e['Action']
missing = sorted(t for t in want if t.startswith('github.com/containers/nri-plugins/') and 'pkg/topology::' not in t and got.get(t) != 'pass')
print('baseline tests not passing with the change:', len(missing), missing[:5])
open('/tmp/seedverify.baseline','w').write(str(len(missing)))
PY
echo "RESULT clean_demo_rc=$rc_clean build_rc=$rc_build seeded_demo_rc=$rc_seeded baseline_missing=$(cat /tmp/seedverify.baseline)"
