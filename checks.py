"""Per-property check configuration (stages, tiers, evidence texts)."""

CHECKS = {}

CHECKS["C17"] = dict(
    level="model_checking",
    rule="explicit-state BFS over node/group watch events on a real Agent; a state is non-trivial when both a "
         "node-specific and a group configuration are present; states are deduplicated on (nodeCfg, groupCfg, "
         "currentCfg, last delivered)",
    bound=dict(quick="all event sequences up to depth 6 over a 14-event alphabet",
               thorough="all event sequences up to depth 9 over a 16-event alphabet"),
    assumptions=["events are delivered by calling Agent.updateNodeConfig/updateGroupConfig directly (the select loop "
                 "in Agent.Start only dispatches to them)", "notify callback never reports a fatal error"],
    stages=[dict(pkg="./pkg/agent", run="TestVerifC17", shards=1)],
)
