"""Per-property check configuration (stages, tiers, evidence texts)."""

CHECKS = {}

CHECKS["C17"] = dict(
    level="model_checking",
    rule="(a) explicit-state BFS over node/group watch events on a real Agent; a state is non-trivial when both a "
         "node-specific and a group configuration are present; states are deduplicated on (nodeCfg, groupCfg, "
         "currentCfg, last delivered); (b) explicit-state BFS over environment events (add/modify/delete/error events, watch expiry, API unreachable/reachable, retry timer expiry) "
         "on the real ObjectWatch with its goroutine: the retry timer is owned by the harness (time import redirected to vtime), the fake API's watches are unbuffered, the goroutine is waited for until it blocks in its select; "
         "oracle: every delivered event reaches the consumer once and in order, the watch always has an open API watch or an armed retry, and it recovers once the API is reachable; (c) explicit-state BFS through the real event loop: Agent.Start() with its three real ObjectWatch wrappers (node watch served by a local HTTP server, configuration watches from a harness ConfigInterface, reopen timers harness-owned), events per kind add / modify / same-version / delete / watch error + timer expiry (a reopened watch re-delivers the existing object), judged against the same reference machine after the loop and all wrapper goroutines are parked; a watch error or a reopen must change nothing",
    bound=dict(quick="agent: all event sequences up to depth 6 over a 14-event alphabet; watch: depth 6 over 8 environment events; event loop: depth 5 over up to 9 enabled events",
               thorough="agent: depth 9 over a 16-event alphabet; watch: depth 8; event loop: depth 7"),
    assumptions=["stage (a) delivers events by calling Agent.updateNodeConfig/updateGroupConfig directly; the dispatch of the select loop in Agent.Start is covered by stage (c), "
                 "where quiescence is observed through the goroutine states of the loop and the wrappers (runtime.Stack) and empty watcher channels, twice in a row", "notify callback never reports a fatal error"],
    stages=[dict(pkg="./pkg/agent", run="TestVerifC17", shards=1),
            dict(pkg="./pkg/agent/watch", run="TestVerifC17Watch", shards=1),
            dict(pkg="./pkg/agent", run="TestVerifC17Start", shards=1)],
)

CHECKS["C20"] = dict(
    level="exploration", engine="inputx",
    technique="exhaustive enumeration of the whole input range (every mCPU value, every cgroup shares value, a dense capacity interval plus structured families) on the real functions",
    rule="every CPU request/limit 0..256000 mCPU on the reconstruction function; every capacity x oom_score_adj also with memory limits on and around the boundaries of the adjustment's request range and, for ~6000 structured values x 4 histories (fresh name, previous same-named instance exited but cached, previous instance running, pod restored from the persisted cache after a restart), through InsertContainer/GetResourceRequirements of a real cache (the reported OOM score adjustment rotating over 900, -997, 3, 999 and absent); every cpu.shares value 2..262144, and every memory capacity of the family "
         "(dense interval above 1 MiB + powers of two/ten with deltas + quadratic sweep to 16 TiB + real MemTotal values) x every "
         "Burstable oom_score_adj 3..999; non-trivial = distinct inputs whose encoding is not clamped (cpu) / distinct capacities",
    bound=dict(quick="cpu: full range; capacities: 2^18 dense + ~61k structured", thorough="cpu: full range; capacities: 2^22 dense + ~61k structured"),
    assumptions=["'all node memory capacities' is infinite: a dense interval and structured families are enumerated, not every int64"],
    stages=[dict(pkg="./pkg/kubernetes", run="TestVerifC20", shards=16),
            dict(pkg="./pkg/resmgr/cache", run="TestVerifC20Cache", shards=4)],
)

_LIBMEM = dict(
    level="model_checking",
    assumptions=["allocator driven through its public API only", "request creation stamps are strictly increasing (asserted, execution retried otherwise)",
                 "node sets limited to 2-4 nodes (one 8-node DRAM+PMEM set searched from a non-initial state with overlapping zones), 5-6 request shapes per scenario incl. zero-sized ones, at most two outstanding offers",
                 "state key = observable allocator state + per outstanding offer the successful operations since it was taken (the implementation keeps a hidden version counter, so equally-stale offers reached by different operations are not merged)"],
)
CHECKS["C06"] = dict(_LIBMEM,
    rule="explicit-state BFS over Allocate/GetOffer/Commit/Realloc/Release/Reset on a real libmem Allocator per node-set scenario; "
         "twin executions (trace without uncommitted offers / commit replaced by direct allocation) for the differential clauses; "
         "non-trivial = distinct states with at least two live allocations",
    bound=dict(quick="20 scenarios, all sequences to depth 4 (8-node set: prefix of 3 + depth 3)", thorough="30 scenarios, all sequences to depth 5 (8-node set: prefix of 3 + depth 4)"),
    stages=[dict(pkg="./pkg/resmgr/lib/memory", run="TestVerifC06", shards=16)],
)
CHECKS["C07"] = dict(_LIBMEM,
    rule="same exploration frame as C06; after every successful Allocate/Realloc/Commit: capacity of every node subset, strict types, "
         "normal memory, superset-only moves, immovable reservations, exact update set; non-trivial = states with at least two live allocations",
    bound=dict(quick="20 scenarios (incl. a memory-less node next to movable-only memory), all sequences to depth 4 (8-node set: prefix of 3 + depth 3)", thorough="30 scenarios, all sequences to depth 5 (8-node set: prefix of 3 + depth 4)"),
    stages=[dict(pkg="./pkg/resmgr/lib/memory", run="TestVerifC07", shards=16)],
)

CHECKS["C16"] = dict(
    level="exploration", engine="inputx",
    technique="exhaustive enumeration of a generated machine family; discovery judged against the generator's record, pool tree judged against structural rules",
    rule="every machine of the family packages{1,2,4} x dies{1,2} x NUMA/die{1,2} x cores{1,2(,3)} x threads{1,2} x 17 variants "
         "(HT numbering, core ids that restart in every die, offline/isolated CPUs incl. all-but-one CPU isolated, CPU-less PMEM/HBM nodes, memory-less and movable-only nodes, cache sharing patterns, hybrid cores, cpufreq); "
         "non-trivial = machines with at least one irregularity (extra nodes, offline/isolated CPUs, memory-less node, hybrid cores)",
    bound=dict(quick="~570 machines for discovery; ~250 machines x 4 available/reserved configurations for the pool tree, each configuration also reached by an accepted update from each of the others (12 ordered pairs per machine; the pools must equal those of a fresh start)", thorough="~830 machines; ~250 machines x 6 configurations + 30 ordered pairs"),
    assumptions=["sysfs model: node ids contiguous from 0, an offline CPU keeps its nodeN link but has no topology directory, node cpulist lists online CPUs only"],
    stages=[dict(pkg="./pkg/sysfs", run="TestVerifC16Discovery", shards=16),
            dict(pkg="./pkg/resmgr", run="TestVerifC16Pools", shards=16)],
)

CHECKS["C08"] = dict(
    level="exploration", engine="inputx",
    technique="exhaustive enumeration of (topology, every subset of online CPUs, every count, priority, flag set) on the real allocator against the stated contract; determinism across fresh allocators and map-iteration orders",
    rule="per generated topology: every subset of online CPUs as candidate set x every count 0..|set|+1 x 4 priorities x flag sets, for AllocateCpus and ReleaseCpus; "
         "each input is run on 5-6 allocators (sorted, a second sorted one, reverse and rotated map order - all long-lived, they see the whole request sequence - and one built anew for every request, so that an answer depending on earlier requests shows as a disagreement) and all outcomes must agree; "
         "non-trivial = inputs with 0 < cnt < |set| (the allocator actually has to choose)",
    bound=dict(quick="16 topologies of up to 8 CPUs (incl. hybrid + clustered across two packages, last-level cache groups in two packages, a two-die hybrid package whose hyperthreaded P-cores are each their own cluster), 6 flag sets", thorough="22 topologies of up to 12 CPUs, all 16 flag combinations + default"),
    assumptions=["map iteration order is controlled through the vgen map-range rewrite (sorted / reverse / rotate policies applied to all sites), not all per-site permutations",
                 "ReleaseCpus semantics as used by its callers: on return *from holds the n released CPUs and the result the CPUs kept"],
    stages=[dict(pkg="./pkg/cpuallocator", run="TestVerifC08", shards=16)],
)

_RESMGR_ASSUME = ["a real resource manager (cache, policy, controllers) is built in-process on a generated sysfs tree; the NRI socket, pid file and agent clients are not started",
                  "the fake runtime applies adjustments/updates with NRI merge semantics",
                  "map iteration order fixed to sorted through the vgen map-range rewrite; one live instance per process"]

def _resmgr(pid, rule, quick, thorough, run=None, **kw):
    d = dict(level="model_checking", rule=rule, bound=dict(quick=quick, thorough=thorough), assumptions=_RESMGR_ASSUME,
             stages=[dict(pkg="./pkg/resmgr", run=run or ("TestVerif" + pid), shards=16,
                          quick=dict(deadline_s=420), thorough=dict(deadline_s=3000))])
    d.update(kw)
    return d

CHECKS["C01"] = _resmgr("C01",
    "explicit-state BFS over NRI request histories (create/stop/remove/update/synchronize/reconfigure) on a real topology-aware resource manager per scenario (machine x configuration x container templates); "
    "oracle after every request on told-view, cache, ExportResourceData and zones; non-trivial = distinct states with an exclusive grant and at least one other grant",
    "17 scenarios (incl. isolated CPUs handed out and released, reconfigurations that take granted CPUs away, re-synchronisation after containers vanished), depth 5", "21 scenarios, depth 6")
CHECKS["C03"] = _resmgr("C03",
    "same frame as C01; oracle: per-pool capacity ledger, non-negative Available, non-empty cpusets, documented exclusive-CPU eligibility (reference model written from the docs), cpu.shares encoding; "
    "non-trivial = states with at least two live containers",
    "17 scenarios (same frames as C01), depth 5", "21 scenarios, depth 6")
CHECKS["C05"] = _resmgr("C05",
    "same frame as C01; oracle: told-view (creation adjustment + returned and pushed updates, NRI merge semantics) equals the cache for every live container, nothing pending, "
    "adjustment describes only the created container, at most one update per container, no update to stopped/removed containers; the driver includes the reconfiguration scenarios of C13 "
    "(configuration updates offered at every request boundary: identical, accepted changes, every rejection kind - a rejected update is rolled back by re-applying the old configuration, which moves containers again); "
    "non-trivial = states with at least two live containers",
    "37 scenarios (both policies; the frames of C01 and C02 plus the reconfiguration scenarios of C13), depth 4-5", "44 scenarios, depth 5-6")
CHECKS["C09"] = _resmgr("C09",
    "explicit-state BFS as C01 plus failing requests, resynchronisation, reconfiguration between stop and remove, restarts and re-created containers; for EVERY visited state the history is extended by "
    "'stop and remove everything' on the same real instance and compared with the pristine state of a fresh instance with the effective configuration; per request: stopped/removed containers hold nothing; "
    "non-trivial = states with at least two live containers",
    "41 scenarios (both policies; frames of C01/C02, failing requests, restarts, re-creation, plus the reconfiguration scenarios of C13 - options toggled between admission and release), depth 4-5 (+ drain suffix per state)", "48 scenarios, depth 5-6 (+ drain suffix per state)")
CHECKS["C02"] = _resmgr("C02",
    "explicit-state BFS over create/stop/remove/synchronize/reconfigure histories on a real balloons resource manager per configuration scenario; oracle after every request from zones, cache/told cpusets, "
    "the cached CPU class assignment and the balloon snapshot: disjoint balloons inside the available set, exactly-one membership, container cpuset = balloon + shared idle (one thread per core when hidden), "
    "shared idle set exact for the sharing scope, min/max CPUs and instances, balloon size >= requests, CPU classes; non-trivial = states with at least two live containers",
    "8 configuration scenarios (incl. class-only reconfigurations back and forth, re-synchronisation after containers vanished), depth 5; balloon limits/options/classes are judged against the configuration in force, not against what the balloon object remembers", "10 configuration scenarios, depth 6")
CHECKS["C04"] = _resmgr("C04",
    "explicit-state BFS over create/start/stop/remove histories with memory-heavy containers on NUMA layouts (2/4 DRAM, DRAM+CPU-less PMEM, DRAM+HBM, movable-only node, asymmetric capacities), both policies, "
    "incl. a balloon that inflates from one NUMA node across both (re-allocation of the zones of the containers in it) and topology-aware cold start (PMEM-only zone, re-allocated to PMEM+DRAM by the cold-start-done event, offered only while the policy has a cold-start timer armed); "
    "oracle after every request: told/cached cpuset.mems = Allocator.AssignedZone, non-empty, nodes with memory; capacity of every node subset; widened zones delivered in the same reply; "
    "non-trivial = states with at least two memory allocations",
    "14 scenarios (incl. two containers of one balloon widening each other, reconfiguration between admissions), depth 5; an allocation weighs what its container needs (request reconstructed by the cache, else limit), not what the allocator remembers", "15 scenarios, depth 6")
CHECKS["C12"] = _resmgr("C12",
    "explicit-state BFS over histories in which opted-out containers (cpu.preserve / memory.preserve at container, pod and bare level, balloons preserve rule, pinCPU/pinMemory off globally or per balloon type) are created with a "
    "non-empty runtime cpuset and coexist with containers that cause re-balancing (shared-set shrink/grow, balloon inflate/deflate, zone widening under memory pressure incl. a Burstable memory-only opt-out), with updates, synchronize, reconfigure and the end of cold-start periods; "
    "oracle: every adjustment/update addressed to an opted-out container carries no plugin-chosen cpus / no different mems; non-trivial = states with at least two live containers",
    "17 scenarios (incl. a preserve rule that arrives by a configuration update), depth 5", "18 scenarios, depth 6")
CHECKS["C13"] = _resmgr("C13",
    "explicit-state BFS over histories with a configuration update offered at every request boundary (identical, every rejection kind, valid changes), both policies; oracle: identical config changes nothing and pushes no real change; "
    "a rejected update leaves containers, zones and policy state untouched and - twin execution on a second real instance without the rejected updates - later decisions identical; after an accepted update all C01-C05/C02/C09 clauses hold; "
    "non-trivial = states with at least two live containers",
    "7 scenarios x 3-9 configurations, depth 4; the state key carries which kinds of update have been refused so far and the implicit affinities registered in the cache, so a state reached through a refused update is never merged with the one that never saw it", "7 scenarios, depth 5")

CHECKS["C10"] = dict(
    level="fault_enumeration", engine="crashx",
    technique="explicit-state search over cache operation histories; for the last operation of every history: enumeration of every crash state of the real state directory (step boundaries and partial-write prefixes), each reloaded and continued by one more operation; every single step failure through an os shim; exhaustive permission matrix",
    rule="all histories of 22 cache operations (also resetting the active policy and the refresh Synchronize performs) (incl. a pod whose resources arrive asynchronously from the pod resources API after InsertPod has saved, and a plugin restart: a new cache instance on the same state directory, not rendered before the next save) up to the depth bound on a real cache that starts on a fresh state directory (the very first save, into a directory without a cache file, is hooked and judged too); per operation: snapshots of the REAL state directory before and after every intercepted filesystem step (steps made through an opened *os.File show up as the difference of two snapshots) and, between two snapshots, every sequential-overwrite prefix new[:k]+old[k:] of each changed file (every k for the cache file; first, middle and last for other files) are materialised; each crash state must load, load to the previous or a newly completed snapshot, and be continuable: a new instance on it makes one more (shrinking) change, saves, and the directory must load to that instance's view; every primitive step is made to fail once "
         "(EIO, also with short writes); target x kind x all 512 modes for the permission clause; non-trivial = histories containing a container / refused permission cases",
    bound=dict(quick="depth 3 histories; 7680 permission cases", thorough="depth 5 histories; 7680 permission cases"),
    assumptions=["crash = process kill or failed system call (no power-loss / unsynced-data model; the code does not fsync)",
                 "filesystem steps not made through the intercepted os functions of cache.go are seen only at step boundaries"],
    stages=[dict(pkg="./pkg/resmgr/cache", run="TestVerifC10", shards=16)],
)
CHECKS["C11"] = _resmgr("C11",
    "explicit-state BFS over histories that end in (or continue after) a plugin restart: a new real instance on the same state directory followed by Synchronize with the runtime's list; cuts: every request boundary and every "
    "intermediate cache save of the interrupted request (captured through the os shim); runtime truth menu: unchanged, any one container gone/stopped, a pod gone, everything gone, one new container; up to two restarts; both policies; "
    "oracle: exactly the created/running containers hold allocations, unknown pods/containers purged, C01-C05/C02 clauses; non-trivial = states with at least two live containers",
    "6 scenarios, depth 4", "6 scenarios, depth 5")
CHECKS["C14"] = dict(
    level="model_checking",
    rule="(a) explicit-state BFS over NRI event sequences with known, never-seen and already-removed pod/container ids, duplicates and out-of-order lifecycle events - also events naming a container whose creation was refused, and updates that repeat the current resources or carry no resources message - on a real resource manager (both policies), every state extended by a "
         "canonical valid probe (run pod, create, start, stop, remove a fresh BestEffort container) that must be served; (b) every annotation key the plugins interpret x a menu of 32 values (empty, booleans, huge/negative numbers, "
         "malformed YAML/JSON, null elements, 1 MiB strings) x container/pod/bare form, and every resource shape with an optional sub-message or scalar absent (no Linux, no resources, no cpu, no memory, no oom adjustment, no period, no quota, no shares, no limit; also on a container the policy leaves alone: cpu+memory preserve), each through a full lifecycle with three updates (changed, identical, absent resources) + synchronize + reconfigure; "
         "(c) memory-qos, memtierd and sgx-epc handlers x configurations x container shapes x annotation sets x request sequences (memtierd also x launch environment: no cgroup directory, no memtierd binary in PATH, a memtierd that starts), each followed by a valid probe request; oracle: no handler panics, the probe is served; non-trivial = states/cases beyond the well-formed lifecycle",
    bound=dict(quick="6 scenarios depth 3 + ~3350 input cases + ~1000 side-plugin cases", thorough="6 scenarios depth 4 + same inputs"),
    assumptions=_RESMGR_ASSUME + ["a panic is observed through recover() around the handler call; log.Fatal/os.Exit in a handler would kill the worker and be reported as a dead worker"],
    stages=[dict(pkg="./pkg/resmgr", run="TestVerifC14", shards=4, quick=dict(deadline_s=420), thorough=dict(deadline_s=3000)),
            dict(pkg="./pkg/resmgr", run="TestVerifC14Inputs", shards=16),
            dict(pkg="./cmd/plugins/memory-qos", run="TestVerifC14", shards=1),
            dict(pkg="./cmd/plugins/memtierd", run="TestVerifC14", shards=1),
            dict(pkg="./cmd/plugins/sgx-epc", run="TestVerifC14", shards=1)],
)

CHECKS["C18"] = dict(
    level="exploration", engine="inputx",
    technique="exhaustive enumeration of annotation maps (every subset of forms, several container-name pairs) and of every iteration permutation of the annotation map and the derived map, against a reference resolver",
    rule="cache GetEffectiveAnnotation (every 37th map also on the pod as a second cache instance restores it from the state directory) and sgx-epc parseEpcLimit (also under all permutations of the annotation map): every subset of {container-specific for C, for each of 4-5 other containers (names that are prefixes/suffixes of each other), pod-wide, bare} x every choice of which of the three forms for C carry an EMPTY value (present-but-empty still wins) x 5-6 target names x keys (with decoy keys); "
         "memory-qos and memtierd: every combination of class (incl. the empty class) / memory.high / memory.swap.max at pod level, container level or both, plus annotations addressed to another container, "
         "each evaluated under ALL permutations of the annotation map and of the derived map (<= 5! each, through the vgen map-range rewrite); non-trivial = maps with at least one relevant annotation (two for the side plugins)",
    bound=dict(quick="~17000 maps for cache/sgx-epc; ~1500 maps x up to 120x24 orders for the side plugins", thorough="same (the family is enumerated completely in both tiers)"),
    assumptions=["memory-qos/memtierd have two annotation forms (container-specific and pod-level); the three-level rule applies to the cache and sgx-epc resolvers"],
    stages=[dict(pkg="./pkg/resmgr/cache", run="TestVerifC18", shards=1),
            dict(pkg="./cmd/plugins/sgx-epc", run="TestVerifC18", shards=1),
            dict(pkg="./cmd/plugins/memory-qos", run="TestVerifC18", shards=1),
            dict(pkg="./cmd/plugins/memtierd", run="TestVerifC18", shards=1)],
)

CHECKS["C19"] = dict(
    level="exploration", engine="inputx",
    technique="exhaustive enumeration of an expression grammar x subjects against an independent reference evaluator; exhaustive enumeration of ordered balloon-type lists x container kinds on a real balloons resource manager",
    rule="expressions: 39 keys (plain, nested pod/labels/tags, joint keys with default/custom/invalid separators, invalid keys) x 12 operators x value lists of length 0-2 (0-3 thorough) over 8 atoms x 5 subjects (pods and containers); "
         "clauses: negation pairs complementary, joint-key values, validated expressions resolve without error, documented operator semantics, affinity weights clamped; "
         "balloon-type selection: all permutations of user types (+ explicit reserved/default placement) x container kinds, each on the configuration as applied and again after an update that validation refuses and that carries other type names, and after an accepted update that only permutes the types (the policy starts with the reverse order); pods with two containers that resolve to different types, in both creation orders; non-trivial = accepted expressions / containers placed",
    bound=dict(quick="~170k expression evaluations; 6 type orders x 12 container kinds", thorough="~1M expression evaluations; 24 type orders x 12 container kinds"),
    assumptions=["the documentation does not describe the '*' wildcard accepted by Equals/In; inputs with a '*' value are judged for negation symmetry only"],
    stages=[dict(pkg="./pkg/resmgr/cache", run="TestVerifC19", shards=1),
            dict(pkg="./pkg/resmgr", run="TestVerifC19Balloons", shards=8)],
)

CHECKS["C15"] = dict(
    level="model_checking", engine="schedx",
    technique="stateless model checking of the real code under a controlled cooperative scheduler: DFS over all schedules with iterative preemption bounding; lock-discipline monitor; serialisability against all sequential orders",
    rule="(A) a real resource manager whose RWMutex is the scheduler-aware shim and whose cache/policy fields are access-checking proxies; 2-3 logical threads, 1-2 requests each, on colliding pods/containers; every schedule up to the preemption "
         "bound; oracle: every proxied cache/policy access happens under the resource manager lock, no deadlock, no panic, final state equals the final state of some sequential order, and a reply is still what its handler returned when it is consumed "
         "(a scheduling point of its own between the handler's return and the consumption of its reply models the transport); "
         "(B) InsertPod + GetPodResources vs the fetch goroutine vs the environment (go/chan operations rewritten to scheduler calls), incl. that only handler threads write the state directory; (B2) the pod-resource LIST that Synchronize starts: RefreshPods + RefreshContainers vs the LIST goroutine (deliver or fail) vs the per-pod fetch goroutines on a real cache (cache.go's channel receive is a scheduling point), oracle: per container the pod resources and the memoised topology hints equal those of the run whose reply is in the channel before the refresh starts; states = schedules executed, transitions = scheduling points; non-trivial = schedules; "
         "(C) corroboration, not part of the decision: the same menus, and the fetch bodies of (B), run free (real goroutines, no scheduler, 30/300 repetitions each) in a -race binary, replies consumed after the handler returns; a race-detector report is a violation, silence adds nothing to the coverage statement",
    bound=dict(quick="preemption bound 2", thorough="preemption bound 3 (pipeline) / unbounded (fetch) / 5 (LIST)"),
    assumptions=["scheduling points: resmgr lock operations, proxied cache/policy calls, the hand-over of a reply, goroutine creation and channel operations in cache/pod.go and cache/cache.go (the communication of a polling select stays native); plain memory accesses between points are atomic for the exhaustive part (unsynchronised accesses between points are only sampled, by the free-running race-detector pass)",
                 "menus run with the metrics exporter off and on: with it on, the policy metrics are polled through a private registry gatherer on a scheduler thread of its own and pkg/metrics' mutex is the scheduler-aware shim, so metrics.Block() in updateTopologyZones and the collector's callback into the policy take part in the schedules"],
    stages=[dict(pkg="./pkg/resmgr/cache", run="TestVerifC15Fetch", shards=1, quick=dict(timeout_s=600), thorough=dict(timeout_s=1800)),
            dict(pkg="./pkg/resmgr/cache", run="TestVerifC15List", shards=1, quick=dict(timeout_s=600), thorough=dict(timeout_s=3600)),
            dict(pkg="./pkg/resmgr", run="TestVerifC15", shards=16, quick=dict(deadline_s=420), thorough=dict(deadline_s=3000)),
            # corroboration only (sampling): the same menus free-running under the race detector
            dict(pkg="./pkg/resmgr", run="TestVerifC15Race", shards=4, race=True),
            dict(pkg="./pkg/resmgr/cache", run="TestVerifC15FetchRace", shards=1, race=True, quick=dict(timeout_s=900), thorough=dict(timeout_s=1800))],
)
