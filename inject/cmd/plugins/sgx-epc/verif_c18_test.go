//go:build verif

package main

import (
	"fmt"
	"io"
	"testing"

	"github.com/sirupsen/logrus"

	"github.com/containers/nri-plugins/pkg/verif/mc"
)

func TestVerifC18(t *testing.T) {
	log = logrus.New()
	log.SetOutput(io.Discard)
	w := mc.NewWorker(t, "C18")
	defer w.Finish()
	w.Replayer = nil
	names := []string{"c", "cc", "c-c", "pod", "xc"}
	for ti, target := range names {
		var others []string
		for oi, o := range names {
			if oi != ti {
				others = append(others, o)
			}
		}
		nforms := 1 + len(others) + 2
		for mask := 0; mask < 1<<uint(nforms); mask++ {
			ann := map[string]string{"x" + epcLimitKey: "999", epcLimitKey + "x/pod": "998"}
			var expect uint64
			if mask&1 != 0 {
				ann[epcLimitKey+"/container."+target] = "11"
			}
			for i, o := range others {
				if mask&(1<<uint(1+i)) != 0 {
					ann[epcLimitKey+"/container."+o] = fmt.Sprint(100 + i)
				}
			}
			if mask&(1<<uint(nforms-2)) != 0 {
				ann[epcLimitKey+"/pod"] = "22"
			}
			if mask&(1<<uint(nforms-1)) != 0 {
				ann[epcLimitKey] = "33"
			}
			switch {
			case mask&1 != 0:
				expect = 11
			case mask&(1<<uint(nforms-2)) != 0:
				expect = 22
			case mask&(1<<uint(nforms-1)) != 0:
				expect = 33
			}
			got, err := parseEpcLimit(ann, target)
			w.Res.Evaluations++
			if mask != 0 {
				w.Res.Nontrivial++
			}
			if err != nil || got != expect {
				w.Report(mc.Violation{Property: "C18", Oracle: "epc-limit", Signature: "sgx-epc-effective-annotation", Scenario: "sgx-epc",
					Trace:  []string{fmt.Sprintf("container=%s annotations=%v", target, ann)},
					Detail: fmt.Sprintf("parseEpcLimit(%q) = (%d, %v), expected %d", target, got, err, expect)})
			}
		}
	}
	w.Sample(map[string]any{"container": "c", "annotations": map[string]string{epcLimitKey + "/container.cc": "100", epcLimitKey: "33"}, "expected": 33})
}
