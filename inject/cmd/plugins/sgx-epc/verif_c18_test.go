//go:build verif

package main

import (
	"fmt"
	"io"
	"testing"

	"github.com/sirupsen/logrus"

	"github.com/containers/nri-plugins/pkg/verif/mc"
)

func TestVerifC18(t *testing.T) {
	log = logrus.New()
	log.SetOutput(io.Discard)
	w := mc.NewWorker(t, "C18")
	defer w.Finish()
	w.Replayer = nil
	names := []string{"c", "cc", "c-c", "pod", "xc"}
	for ti, target := range names {
		var others []string
		for oi, o := range names {
			if oi != ti {
				others = append(others, o)
			}
		}
		nforms := 1 + len(others) + 2
		// empty: which of the three forms that matter carry an empty value - present, so it is the one that is parsed (and refused)
		for maskE := 0; maskE < (1<<uint(nforms))*8; maskE++ {
			mask, empty := maskE>>3, maskE&7
			val := func(bit int, v string) string {
				if empty&bit != 0 {
					return ""
				}
				return v
			}
			if (empty&1 != 0 && mask&1 == 0) || (empty&2 != 0 && mask&(1<<uint(nforms-2)) == 0) || (empty&4 != 0 && mask&(1<<uint(nforms-1)) == 0) {
				continue
			}
			ann := map[string]string{"x" + epcLimitKey: "999", epcLimitKey + "x/pod": "998"}
			var expect uint64
			expectErr := false
			if mask&1 != 0 {
				ann[epcLimitKey+"/container."+target] = val(1, "11")
			}
			for i, o := range others {
				if mask&(1<<uint(1+i)) != 0 {
					ann[epcLimitKey+"/container."+o] = fmt.Sprint(100 + i)
				}
			}
			if mask&(1<<uint(nforms-2)) != 0 {
				ann[epcLimitKey+"/pod"] = val(2, "22")
			}
			if mask&(1<<uint(nforms-1)) != 0 {
				ann[epcLimitKey] = val(4, "33")
			}
			switch {
			case mask&1 != 0:
				expect, expectErr = 11, empty&1 != 0
			case mask&(1<<uint(nforms-2)) != 0:
				expect, expectErr = 22, empty&2 != 0
			case mask&(1<<uint(nforms-1)) != 0:
				expect, expectErr = 33, empty&4 != 0
			}
			if expectErr {
				expect = 0
			}
			got, err := parseEpcLimit(ann, target)
			w.Res.Evaluations++
			if mask != 0 {
				w.Res.Nontrivial++
			}
			if (err != nil) != expectErr || got != expect {
				w.Report(mc.Violation{Property: "C18", Oracle: "epc-limit", Signature: "sgx-epc-effective-annotation", Scenario: "sgx-epc",
					Trace:  []string{fmt.Sprintf("container=%s annotations=%v", target, ann)},
					Detail: fmt.Sprintf("parseEpcLimit(%q) = (%d, %v), expected %d", target, got, err, expect)})
			}
		}
	}
	w.Sample(map[string]any{"container": "c", "annotations": map[string]string{epcLimitKey + "/container.cc": "100", epcLimitKey: "33"}, "expected": 33})
}
