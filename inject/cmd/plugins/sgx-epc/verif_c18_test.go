//go:build verif

package main

import (
	"fmt"
	"io"
	"testing"

	"github.com/sirupsen/logrus"

	"github.com/containers/nri-plugins/pkg/verif/mapiter"
	"github.com/containers/nri-plugins/pkg/verif/mc"
)

func TestVerifC18(t *testing.T) {
	log = logrus.New()
	log.SetOutput(io.Discard)
	w := mc.NewWorker(t, "C18")
	defer w.Finish()
	w.Replayer = nil
	names := []string{"c", "cc", "c-c", "pod", "xc"}
	for ti, target := range names {
		var others []string
		for oi, o := range names {
			if oi != ti {
				others = append(others, o)
			}
		}
		nforms := 1 + len(others) + 2
		// empty: which of the three forms that matter carry an empty value - present, so it is the one that is parsed (and refused)
		for maskE := 0; maskE < (1<<uint(nforms))*8; maskE++ {
			mask, empty := maskE>>3, maskE&7
			val := func(bit int, v string) string {
				if empty&bit != 0 {
					return ""
				}
				return v
			}
			if (empty&1 != 0 && mask&1 == 0) || (empty&2 != 0 && mask&(1<<uint(nforms-2)) == 0) || (empty&4 != 0 && mask&(1<<uint(nforms-1)) == 0) {
				continue
			}
			ann := map[string]string{"x" + epcLimitKey: "999", epcLimitKey + "x/pod": "998"}
			var expect uint64
			expectErr := false
			if mask&1 != 0 {
				ann[epcLimitKey+"/container."+target] = val(1, "11")
			}
			for i, o := range others {
				if mask&(1<<uint(1+i)) != 0 {
					ann[epcLimitKey+"/container."+o] = fmt.Sprint(100 + i)
				}
			}
			if mask&(1<<uint(nforms-2)) != 0 {
				ann[epcLimitKey+"/pod"] = val(2, "22")
			}
			if mask&(1<<uint(nforms-1)) != 0 {
				ann[epcLimitKey] = val(4, "33")
			}
			switch {
			case mask&1 != 0:
				expect, expectErr = 11, empty&1 != 0
			case mask&(1<<uint(nforms-2)) != 0:
				expect, expectErr = 22, empty&2 != 0
			case mask&(1<<uint(nforms-1)) != 0:
				expect, expectErr = 33, empty&4 != 0
			}
			if expectErr {
				expect = 0
			}
			got, err := parseEpcLimit(ann, target)
			w.Res.Evaluations++
			if mask != 0 {
				w.Res.Nontrivial++
			}
			if (err != nil) != expectErr || got != expect {
				w.Report(mc.Violation{Property: "C18", Oracle: "epc-limit", Signature: "sgx-epc-effective-annotation", Scenario: "sgx-epc",
					Trace:  []string{fmt.Sprintf("container=%s annotations=%v", target, ann)},
					Detail: fmt.Sprintf("parseEpcLimit(%q) = (%d, %v), expected %d", target, got, err, expect)})
			}
		}
	}
	// independence of the order in which annotations are stored: every subset of the four forms that matter, under ALL
	// iteration permutations of the map (the vgen map-range rewrite hands the order to the harness)
	forms := []struct{ key, val string }{{epcLimitKey + "/container.c", "11"}, {epcLimitKey + "/container.cc", "44"}, {epcLimitKey + "/pod", "22"}, {epcLimitKey, "33"}}
	for mask := 1; mask < 1<<uint(len(forms)); mask++ {
		ann := map[string]string{}
		var expect uint64
		for i := len(forms) - 1; i >= 0; i-- {
			if mask&(1<<uint(i)) != 0 {
				ann[forms[i].key] = forms[i].val
				if i != 1 {
					fmt.Sscan(forms[i].val, &expect) // the last one assigned is the highest-precedence form present (0: container, 2: pod, 3: bare)
				}
			}
		}
		for _, perm := range mapiter.Permutations(len(ann)) {
			mapiter.LenPerm = map[int][]int{len(ann): perm}
			got, err := parseEpcLimit(ann, "c")
			mapiter.LenPerm = nil
			w.Res.Evaluations++
			if err != nil || got != expect {
				w.Report(mc.Violation{Property: "C18", Oracle: "epc-limit-order", Signature: "sgx-epc-order-dependent", Scenario: "sgx-epc",
					Trace:  []string{fmt.Sprintf("container=c annotations=%v perm=%v", ann, perm)},
					Detail: fmt.Sprintf("parseEpcLimit(\"c\") = (%d, %v) under iteration order %v, expected %d", got, err, perm, expect)})
				break
			}
		}
	}
	w.Sample(map[string]any{"container": "c", "annotations": map[string]string{epcLimitKey + "/container.cc": "100", epcLimitKey: "33"}, "expected": 33})
}
