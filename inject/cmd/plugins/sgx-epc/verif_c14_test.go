//go:build verif

package main

import (
	"context"
	"fmt"
	"io"
	"testing"

	"github.com/containerd/nri/pkg/api"
	"github.com/sirupsen/logrus"

	"github.com/containers/nri-plugins/pkg/verif/mc"
)

func TestVerifC14(t *testing.T) {
	log = logrus.New()
	log.SetOutput(io.Discard)
	w := mc.NewWorker(t, "C14")
	defer w.Finish()
	ctx := context.Background()
	replay := ""
	if w.ReplayV != nil {
		replay = w.ReplayV.Trace[0]
		w.Replayer = nil
	}
	values := []string{"", "0", "1", "65536", "-1", "18446744073709551615", "18446744073709551616", "1e3", "0x10", " 5", "abc", "null", "[1]", string(make([]byte, 1<<20))}
	forms := []string{"/container.c0", "/pod", "", "/container.other"}
	p := &plugin{}
	outcomes := map[string]bool{}
	for _, vb := range []bool{false, true} {
		verbose = vb
		for _, podNil := range []bool{false, true} {
			for _, val := range values {
				for _, form := range forms {
					label := fmt.Sprintf("sgx-epc verbose=%v podNil=%v form=%q value=%.20q", vb, podNil, form, val)
					if replay != "" && replay != label {
						continue
					}
					pod := &api.PodSandbox{Id: "p", Name: "pod", Namespace: "ns", Annotations: map[string]string{epcLimitKey + form: val}}
					ctr := &api.Container{Id: "c", Name: "c0"}
					var err error
					pan, msg, where := mc.Guard(func() {
						if podNil {
							_, _, err = p.CreateContainer(ctx, &api.PodSandbox{}, ctr)
						} else {
							_, _, err = p.CreateContainer(ctx, pod, ctr)
						}
					})
					w.Res.Evaluations++
					w.Res.Nontrivial++
					outcomes[fmt.Sprint(pan, err == nil)] = true
					if pan {
						w.Report(mc.Violation{Property: "C14", Oracle: "panic", Signature: "panic@" + where + ":sgx-epc", Scenario: "sgx-epc", Trace: []string{label}, Detail: msg})
					}
				}
			}
		}
	}
	verbose = false
	w.Res.Outcomes = int64(len(outcomes))
	w.Sample("sgx-epc form=/pod value=65536")
}
