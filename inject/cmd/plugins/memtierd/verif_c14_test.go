//go:build verif

package main

import (
	"context"
	"fmt"
	"io"
	"os"
	"path/filepath"
	"testing"

	"github.com/containerd/nri/pkg/api"
	"github.com/sirupsen/logrus"

	"github.com/containers/nri-plugins/pkg/verif/mc"
)

var mtdConfigs = map[string]string{
	"none":     "",
	"invalid":  "classes: [unterminated",
	"empty":    "{}",
	"classes":  "classes:\n- name: swap\n  allowswap: true\n- name: noswap\n  allowswap: false\n- name: plain\n",
	"memtierd": "classes:\n- name: tracked\n  memtierdconfig: |\n    policy:\n      name: age\n",
}

func mtdContainers() map[string]*api.Container {
	return map[string]*api.Container{
		"no-linux": {Id: "c", Name: "c0"},
		"full":     {Id: "ctr0id", Name: "c0", Linux: &api.LinuxContainer{CgroupsPath: "/kubepods/pod/c", Resources: &api.LinuxResources{Memory: &api.LinuxMemory{Limit: api.Int64(1 << 30)}}}},
	}
}

func mtdAnnotations() map[string]map[string]string {
	s := annotationSuffix
	return map[string]map[string]string{
		"none":          {},
		"class-known":   {"class" + s: "swap"},
		"class-tracked": {"class" + s: "tracked"},
		"class-unknown": {"class" + s: "nonexistent"},
		"class-empty":   {"class" + s + "/c0": "", "class" + s: "swap"},
		"unified":       {"memory.high" + s: "1000", "memory.swap.max" + s + "/c0": "0", "class" + s: "swap"},
		"bogus":         {"memory.bogus" + s: "1"},
		"huge":          {"class" + s: string(make([]byte, 1<<20))},
	}
}

func TestVerifC14(t *testing.T) {
	log = logrus.New()
	log.SetOutput(io.Discard)
	w := mc.NewWorker(t, "C14")
	defer w.Finish()
	ctx := context.Background()
	replay := ""
	if w.ReplayV != nil {
		replay = w.ReplayV.Trace[0]
		w.Replayer = nil
	}
	opt.runDir = t.TempDir()
	// environments: no cgroup directory for the container (StartContainer is refused early); cgroup directory present but no
	// memtierd binary in PATH (the launch itself is refused); cgroup directory present and a memtierd that starts and lingers
	cgroups := t.TempDir()
	os.MkdirAll(filepath.Join(cgroups, "kubepods", "pod", "ctr0id"), 0o755)
	emptyBin, fakeBin := t.TempDir(), t.TempDir()
	os.WriteFile(filepath.Join(fakeBin, "memtierd"), []byte("#!/bin/sh\nexec /bin/sleep 3\n"), 0o755)
	envs := []struct{ name, cgroups, path string }{{"no-cgroup", "", emptyBin}, {"no-binary", cgroups, emptyBin}, {"launches", cgroups, fakeBin}}
	oldPath := os.Getenv("PATH")
	defer os.Setenv("PATH", oldPath)
	outcomes := map[string]bool{}
	for cfgName, cfg := range mtdConfigs {
		for ctrName := range mtdContainers() {
			for annName, ann := range mtdAnnotations() {
				for _, seq := range []string{"create", "create,start,stop", "start", "stop", "stop,start,create", "start,stop,start,stop", "create,start,start,stop,stop"} {
					for _, env := range envs {
						label := fmt.Sprintf("memtierd cfg=%s ctr=%s ann=%s seq=%s env=%s", cfgName, ctrName, annName, seq, env.name)
						if replay != "" && replay != label {
							continue
						}
						os.Setenv("PATH", env.path)
						p := &plugin{ctrMemtierdEnv: map[string]*memtierdEnv{}, cgroupsDir: env.cgroups}
						pod := &api.PodSandbox{Id: "p", Name: "pod", Namespace: "ns", Annotations: ann}
						var err error
						pan, msg, where := mc.Guard(func() {
							p.Configure(ctx, cfg, "runtime", "v1")
							for _, h := range splitComma(seq) {
								switch h {
								case "create":
									_, _, err = p.CreateContainer(ctx, pod, mtdContainers()[ctrName])
								case "start":
									err = p.StartContainer(ctx, pod, mtdContainers()[ctrName])
								case "stop":
									_, err = p.StopContainer(ctx, pod, mtdContainers()[ctrName])
								}
							}
						})
						w.Res.Evaluations++
						w.Res.Nontrivial++
						outcomes[fmt.Sprint(pan, err == nil)] = true
						if pan {
							w.Report(mc.Violation{Property: "C14", Oracle: "panic", Signature: "panic@" + where + ":memtierd", Scenario: "memtierd", Trace: []string{label}, Detail: msg})
							continue
						}
						pan, msg, where = mc.Guard(func() {
							p.Configure(ctx, mtdConfigs["classes"], "runtime", "v1")
							_, _, err = p.CreateContainer(ctx, &api.PodSandbox{Id: "p2", Name: "pod2", Namespace: "ns", Annotations: mtdAnnotations()["class-known"]}, mtdContainers()["full"])
						})
						if pan || err != nil {
							w.Report(mc.Violation{Property: "C14", Oracle: "probe-fails", Signature: "probe-fails:memtierd", Scenario: "memtierd", Trace: []string{label},
								Detail: fmt.Sprintf("after %s a valid request fails: panic=%v (%s %s) err=%v", label, pan, msg, where, err)})
						}
						// leave no helper process behind
						for _, me := range p.ctrMemtierdEnv {
							if me != nil && me.cmd != nil && me.cmd.Process != nil {
								me.cmd.Process.Kill()
								me.cmd.Wait()
							}
						}
					}
				}
			}
		}
	}
	w.Res.Outcomes = int64(len(outcomes))
	w.Sample("memtierd cfg=memtierd ctr=full ann=class-tracked seq=create,start,stop env=no-binary")
}

func splitComma(s string) []string {
	var out []string
	cur := ""
	for _, r := range s {
		if r == ',' {
			out = append(out, cur)
			cur = ""
		} else {
			cur += string(r)
		}
	}
	return append(out, cur)
}
