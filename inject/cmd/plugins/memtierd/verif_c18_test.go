//go:build verif

package main

import (
	"context"
	"fmt"
	"io"
	"sort"
	"strings"
	"testing"

	"github.com/containerd/nri/pkg/api"
	"github.com/sirupsen/logrus"

	"github.com/containers/nri-plugins/pkg/verif/mapiter"
	"github.com/containers/nri-plugins/pkg/verif/mc"
)

// C18 for memtierd: container-specific beats pod-level, others' annotations are ignored, an explicit cgroup parameter
// beats the class-derived value, under every iteration order of the annotation map and of the derived map.
func TestVerifC18(t *testing.T) {
	log = logrus.New()
	log.SetOutput(io.Discard)
	w := mc.NewWorker(t, "C18")
	defer w.Finish()
	w.Replayer = nil
	ctx := context.Background()
	p := &plugin{ctrMemtierdEnv: map[string]*memtierdEnv{}}
	if err := p.setConfig([]byte("classes:\n- name: swap\n  allowswap: true\n- name: noswap\n  allowswap: false\n- name: plain\n")); err != nil {
		t.Fatalf("config: %v", err)
	}
	// class "swap": memory.swap.max=max; "noswap": memory.swap.max=0; "plain": nothing
	derive := func(class string) map[string]string {
		switch class {
		case "swap":
			return map[string]string{"memory.swap.max": "max"}
		case "noswap":
			return map[string]string{"memory.swap.max": "0"}
		}
		return map[string]string{}
	}
	s := annotationSuffix
	names := []string{"c", "cc", "xc"}
	classes := []string{"swap", "noswap", "plain", "<empty>"} // <empty>: the annotation is present with an empty value (no class), still beats the pod-level one
	outcomes := map[string]bool{}
	perms := map[int][][]int{}
	for n := 0; n <= 6; n++ {
		perms[n] = mapiter.Permutations(n)
	}
	// slots: each of class / memory.high / memory.swap.max can be absent, pod-level, container-level(target), or both;
	// plus optionally one annotation addressed to another container
	type slot struct{ pod, ctr string }
	for _, target := range names {
		other := "cc"
		if target == "cc" {
			other = "c"
		}
		for _, cPod := range append([]string{""}, classes...) {
			for _, cCtr := range append([]string{""}, classes...) {
				for hi := 0; hi < 4; hi++ {
					for sw := 0; sw < 4; sw++ {
						for oth := 0; oth < 3; oth++ {
							ann := map[string]string{}
							eff := map[string]string{}
							if cPod != "" {
								ann["class"+s] = strings.TrimPrefix(cPod, "<empty>")
								eff["class"] = ann["class"+s]
							}
							if cCtr != "" {
								ann["class"+s+"/"+target] = strings.TrimPrefix(cCtr, "<empty>")
								eff["class"] = ann["class"+s+"/"+target]
							}
							for _, kv := range []struct {
								key string
								m   int
							}{{"memory.high", hi}, {"memory.swap.max", sw}} {
								if kv.m&1 != 0 {
									ann[kv.key+s] = "pod-" + kv.key
									eff[kv.key] = "pod-" + kv.key
								}
								if kv.m&2 != 0 {
									ann[kv.key+s+"/"+target] = "ctr-" + kv.key
									eff[kv.key] = "ctr-" + kv.key
								}
							}
							switch oth {
							case 1:
								ann["class"+s+"/"+other] = classes[0]
							case 2:
								ann["memory.high"+s+"/"+other] = "other-high"
							}
							want := derive(eff["class"])
							for _, k := range []string{"memory.high", "memory.swap.max"} {
								if v, ok := eff[k]; ok {
									want[k] = v
								}
							}
							if len(ann) > 5 {
								continue // keep the permutation count bounded (<= 5! per map)
							}
							var ref string
							for _, perm := range perms[len(ann)] {
								for _, perm2 := range perms[len(eff)] {
									mapiter.LenPerm = map[int][]int{len(ann): perm}
									if len(eff) != len(ann) {
										mapiter.LenPerm[len(eff)] = perm2
									} else if fmt.Sprint(perm) != fmt.Sprint(perm2) {
										continue
									}
									pod := &api.PodSandbox{Id: "p", Name: "pod", Namespace: "ns", Annotations: ann}
									ctr := &api.Container{Id: "c", Name: target, Linux: &api.LinuxContainer{Resources: &api.LinuxResources{Memory: &api.LinuxMemory{Limit: api.Int64(1000)}}}}
									adj, _, err := p.CreateContainer(ctx, pod, ctr)
									mapiter.LenPerm = nil
									w.Res.Evaluations++
									got := map[string]string{}
									if adj != nil {
										for k, v := range adj.GetLinux().GetResources().GetUnified() {
											got[k] = v
										}
									}
									gs, ws := render(got), render(want)
									if err != nil {
										gs = "error: " + err.Error()
									}
									if ref == "" {
										ref = gs
										outcomes[gs] = true
										if len(ann) >= 2 {
											w.Res.Nontrivial++
										}
										if gs != ws {
											w.Report(mc.Violation{Property: "C18", Oracle: "unified-parameters", Signature: "memtierd-effective-annotation", Scenario: "memtierd",
												Trace:  []string{fmt.Sprintf("container=%s annotations=%v", target, ann)},
												Detail: fmt.Sprintf("CreateContainer unified = %s, expected %s (annotations %v, container %s)", gs, ws, ann, target)})
										}
									} else if gs != ref {
										w.Report(mc.Violation{Property: "C18", Oracle: "order-dependent", Signature: "memtierd-order-dependent", Scenario: "memtierd",
											Trace:  []string{fmt.Sprintf("container=%s annotations=%v perm=%v/%v", target, ann, perm, perm2)},
											Detail: fmt.Sprintf("result depends on map iteration order: %s vs %s", gs, ref)})
									}
								}
							}
						}
					}
				}
			}
		}
	}
	w.Res.Outcomes = int64(len(outcomes))
	w.Sample(map[string]any{"container": "c", "annotations": map[string]string{"class" + s: "swap", "memory.swap.max" + s + "/c": "ctr-memory.swap.max"}})
}

func render(m map[string]string) string {
	keys := make([]string, 0, len(m))
	for k := range m {
		keys = append(keys, k)
	}
	sort.Strings(keys)
	out := ""
	for _, k := range keys {
		out += k + "=" + m[k] + ";"
	}
	return out
}
