//go:build verif

package main

import (
	"context"
	"fmt"
	"io"
	"testing"

	"github.com/containerd/nri/pkg/api"
	"github.com/sirupsen/logrus"

	"github.com/containers/nri-plugins/pkg/verif/mc"
)

func qosContainers() map[string]*api.Container {
	return map[string]*api.Container{
		"no-linux":     {Id: "c", Name: "c0"},
		"no-resources": {Id: "c", Name: "c0", Linux: &api.LinuxContainer{}},
		"no-memory":    {Id: "c", Name: "c0", Linux: &api.LinuxContainer{Resources: &api.LinuxResources{}}},
		"no-limit":     {Id: "c", Name: "c0", Linux: &api.LinuxContainer{Resources: &api.LinuxResources{Memory: &api.LinuxMemory{}}}},
		"full":         {Id: "c", Name: "c0", Linux: &api.LinuxContainer{Resources: &api.LinuxResources{Memory: &api.LinuxMemory{Limit: api.Int64(1 << 30)}}}},
	}
}

var qosConfigs = map[string]string{
	"none":    "",
	"invalid": "classes: [unterminated",
	"empty":   "{}",
	"classes": "unifiedannotations: [memory.high, memory.swap.max]\nclasses:\n- name: swap\n  swaplimitratio: 0.5\n- name: noswap\n",
}

func qosAnnotations() map[string]map[string]string {
	s := annotationSuffix
	return map[string]map[string]string{
		"none":           {},
		"class-known":    {"class" + s: "swap"},
		"class-unknown":  {"class" + s: "nonexistent"},
		"class-empty":    {"class" + s: ""},
		"class-ctr":      {"class" + s + "/c0": "swap", "class" + s: "noswap"},
		"unified":        {"memory.high" + s: "1000", "memory.swap.max" + s + "/c0": "max"},
		"unified-bogus":  {"memory.bogus" + s: "1"},
		"class+unified":  {"class" + s: "swap", "memory.high" + s + "/c0": "12345"},
		"other-ctr-only": {"class" + s + "/other": "swap"},
		"huge":           {"class" + s: string(make([]byte, 1<<20))},
	}
}

func TestVerifC14(t *testing.T) {
	log = logrus.New()
	log.SetOutput(io.Discard)
	w := mc.NewWorker(t, "C14")
	defer w.Finish()
	ctx := context.Background()
	replay := ""
	if w.ReplayV != nil {
		replay = w.ReplayV.Trace[0]
		w.Replayer = nil
	}
	outcomes := map[string]bool{}
	for cfgName, cfg := range qosConfigs {
		for ctrName := range qosContainers() {
			for annName, ann := range qosAnnotations() {
				label := fmt.Sprintf("memory-qos cfg=%s ctr=%s ann=%s", cfgName, ctrName, annName)
				if replay != "" && replay != label {
					continue
				}
				p := &plugin{}
				pod := &api.PodSandbox{Id: "p", Name: "pod", Namespace: "ns", Annotations: ann}
				var err error
				pan, msg, where := mc.Guard(func() {
					p.Configure(ctx, cfg, "runtime", "v1")
					_, _, err = p.CreateContainer(ctx, pod, qosContainers()[ctrName])
				})
				w.Res.Evaluations++
				if ctrName != "full" || cfgName != "classes" {
					w.Res.Nontrivial++
				}
				outcomes[fmt.Sprint(pan, err == nil)] = true
				if pan {
					w.Report(mc.Violation{Property: "C14", Oracle: "panic", Signature: "panic@" + where + ":memory-qos", Scenario: "memory-qos", Trace: []string{label}, Detail: msg})
					continue
				}
				// a refused request must leave the plugin able to serve a valid one
				pan, msg, where = mc.Guard(func() {
					p.Configure(ctx, qosConfigs["classes"], "runtime", "v1")
					_, _, err = p.CreateContainer(ctx, &api.PodSandbox{Id: "p2", Name: "pod2", Namespace: "ns", Annotations: qosAnnotations()["class-known"]}, qosContainers()["full"])
				})
				if pan || err != nil {
					w.Report(mc.Violation{Property: "C14", Oracle: "probe-fails", Signature: "probe-fails:memory-qos", Scenario: "memory-qos", Trace: []string{label},
						Detail: fmt.Sprintf("after %s a valid request fails: panic=%v (%s %s) err=%v", label, pan, msg, where, err)})
				}
			}
		}
	}
	w.Res.Outcomes = int64(len(outcomes))
	w.Sample("memory-qos cfg=none ctr=no-linux ann=class-known")
}
