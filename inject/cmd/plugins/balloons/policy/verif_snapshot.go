//go:build verif

package balloons

// Read-only snapshot accessors for the verification harness.

import (
	"sort"

	libmem "github.com/containers/nri-plugins/pkg/resmgr/lib/memory"
	policyapi "github.com/containers/nri-plugins/pkg/resmgr/policy"
)

// VerifBalloon renders one balloon instance.
type VerifBalloon struct {
	Name       string // def[instance]
	Def        string
	Instance   int
	Cpus       string
	CpuCount   int
	SharedIdle string
	Mems       string
	Containers []string // container ids, sorted
	Pods       []string
	MinCpus    int
	MaxCpus    int
	MinBlns    int
	MaxBlns    int
	CpuClass   string
	ShareIdle  string
	HideHT     bool
	ReqMilli   int
}

// VerifSnap renders the policy state.
type VerifSnap struct {
	Balloons  []VerifBalloon
	Free      string
	Allowed   string
	Reserved  string
	IdleClass string
	Defs      []string // balloon type names in configured order
}

// VerifSnapshot renders the state of a balloons backend.
func VerifSnapshot(b policyapi.Backend) *VerifSnap {
	p, ok := b.(*balloons)
	if !ok || p.bpoptions == nil {
		return nil
	}
	s := &VerifSnap{Free: p.freeCpus.String(), Allowed: p.allowed.String(), Reserved: p.reserved.String(), IdleClass: p.bpoptions.IdleCpuClass}
	for _, d := range p.bpoptions.BalloonDefs {
		s.Defs = append(s.Defs, d.Name)
	}
	for _, bln := range p.balloons {
		vb := VerifBalloon{
			Name: bln.PrettyName(), Def: bln.Def.Name, Instance: bln.Instance,
			Cpus: bln.Cpus.String(), CpuCount: bln.Cpus.Size(), SharedIdle: bln.SharedIdleCpus.String(),
			Mems: bln.Mems.String(), Containers: bln.ContainerIDs(),
			MinCpus: bln.Def.MinCpus, MaxCpus: bln.Def.MaxCpus, MinBlns: bln.Def.MinBalloons, MaxBlns: bln.Def.MaxBalloons,
			CpuClass: bln.Def.CpuClass, ShareIdle: bln.Def.ShareIdleCpusInSame.String(),
			ReqMilli: p.requestedMilliCpus(bln),
		}
		if bln.Def.HideHyperthreads != nil {
			vb.HideHT = *bln.Def.HideHyperthreads
		}
		sort.Strings(vb.Containers)
		for pid := range bln.PodIDs {
			vb.Pods = append(vb.Pods, pid)
		}
		sort.Strings(vb.Pods)
		s.Balloons = append(s.Balloons, vb)
	}
	sort.Slice(s.Balloons, func(i, j int) bool { return s.Balloons[i].Name < s.Balloons[j].Name })
	return s
}

// VerifMemAllocator returns the policy's memory allocator (read-only use).
func VerifMemAllocator(b policyapi.Backend) *libmem.Allocator {
	p, ok := b.(*balloons)
	if !ok {
		return nil
	}
	return p.memAllocator
}
