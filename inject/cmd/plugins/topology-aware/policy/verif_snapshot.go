//go:build verif

package topologyaware

// Read-only snapshot accessors for the verification harness. Nothing here
// changes policy state.

import (
	"sort"

	libmem "github.com/containers/nri-plugins/pkg/resmgr/lib/memory"
	policyapi "github.com/containers/nri-plugins/pkg/resmgr/policy"
)

// VerifGrant is a rendering of one grant.
type VerifGrant struct {
	ID              string
	Name            string
	Pool            string
	CPUType         string
	Exclusive       string
	ExclusiveCount  int
	Isolated        string
	SharedPortion   int
	ReservedPortion int
	CPUPortion      int
	MemZone         string
	MemZoneMask     uint64
	MemSize         int64
	MemType         string
	InCache         bool
	ColdTimer       bool // a cold-start timer is armed for the grant (the only source of cold-start-done events)
}

// VerifPool is a rendering of one pool.
type VerifPool struct {
	Name, Parent, Kind string
	Depth              int
	Children           []string
	CPUs               string // isolated + reserved + sharable of the total supply
	TotalIsolated      string
	TotalReserved      string
	TotalSharable      string
	FreeIsolated       string
	FreeReserved       string
	FreeSharable       string
	FreeSharableCount  int
	LocalGrantedShared int
	LocalGrantedRsvd   int
	TreeGrantedShared  int
	TreeGrantedRsvd    int
	AllocatableShared  int
	Mems               string
}

// VerifSnap is a rendering of the whole policy state.
type VerifSnap struct {
	Grants   []VerifGrant
	Pools    []VerifPool
	Allowed  string
	Reserved string
	Isolated string
}

// VerifSnapshot renders the state of a topology-aware backend.
func VerifSnapshot(b policyapi.Backend) *VerifSnap {
	p, ok := b.(*policy)
	if !ok || p.root == nil {
		return nil
	}
	s := &VerifSnap{Allowed: p.allowed.String(), Reserved: p.reserved.String(), Isolated: p.isolated.String()}
	ids := make([]string, 0, len(p.allocations.grants))
	for id := range p.allocations.grants {
		ids = append(ids, id)
	}
	sort.Strings(ids)
	for _, id := range ids {
		g := p.allocations.grants[id]
		_, inCache := p.cache.LookupContainer(id)
		s.Grants = append(s.Grants, VerifGrant{
			ID: id, Name: g.GetContainer().PrettyName(), Pool: g.GetCPUNode().Name(), CPUType: g.CPUType().String(),
			Exclusive: g.ExclusiveCPUs().String(), ExclusiveCount: g.ExclusiveCPUs().Size(), Isolated: g.IsolatedCPUs().String(),
			SharedPortion: g.SharedPortion(), ReservedPortion: g.ReservedPortion(), CPUPortion: g.CPUPortion(),
			MemZone: g.GetMemoryZone().MemsetString(), MemZoneMask: uint64(g.GetMemoryZone()), MemSize: g.GetMemorySize(),
			MemType: g.MemoryType().String(), InCache: inCache,
		})
		if cg, ok := g.(*grant); ok && cg.coldStartTimer != nil {
			s.Grants[len(s.Grants)-1].ColdTimer = true
		}
	}
	for _, n := range p.pools {
		t, f := n.GetSupply().(*supply), n.FreeSupply().(*supply)
		vp := VerifPool{
			Name: n.Name(), Kind: string(n.Kind()), Depth: n.RootDistance(),
			CPUs:          t.isolated.Union(t.reserved).Union(t.sharable).String(),
			TotalIsolated: t.isolated.String(), TotalReserved: t.reserved.String(), TotalSharable: t.sharable.String(),
			FreeIsolated: f.isolated.String(), FreeReserved: f.reserved.String(), FreeSharable: f.sharable.String(),
			FreeSharableCount:  f.sharable.Size(),
			LocalGrantedShared: f.grantedShared, LocalGrantedRsvd: f.grantedReserved,
			TreeGrantedShared: n.GrantedSharedCPU(), TreeGrantedRsvd: n.GrantedReservedCPU(),
			AllocatableShared: f.AllocatableSharedCPU(true),
			Mems:              n.GetMemset(memoryAll).String(),
		}
		if !n.IsRootNode() {
			vp.Parent = n.Parent().Name()
		}
		for _, c := range n.Children() {
			vp.Children = append(vp.Children, c.Name())
		}
		s.Pools = append(s.Pools, vp)
	}
	sort.Slice(s.Pools, func(i, j int) bool { return s.Pools[i].Name < s.Pools[j].Name })
	return s
}

// VerifMemAllocator returns the policy's memory allocator (read-only use).
func VerifMemAllocator(b policyapi.Backend) *libmem.Allocator {
	p, ok := b.(*policy)
	if !ok {
		return nil
	}
	return p.memAllocator
}

// VerifColdStartDone is the policy event type that ends a cold start.
const VerifColdStartDone = ColdStartDone
