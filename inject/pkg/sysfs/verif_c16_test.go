//go:build verif

package sysfs

// C16, discovery half: for every machine of a generated family, the
// discovered System must reproduce the generator's record exactly.

import (
	"fmt"
	"os"
	"path/filepath"
	"sort"
	"strings"
	"testing"

	logger "github.com/containers/nri-plugins/pkg/log"
	"github.com/containers/nri-plugins/pkg/verif/mc"
	"github.com/containers/nri-plugins/pkg/verif/sysgen"
)

func c16ints(l []int) string {
	l = append([]int{}, l...)
	sort.Ints(l)
	return sysgen.ListString(l)
}

func c16Check(w *mc.Worker, spec *sysgen.Spec, dir string) int {
	m := spec.Model()
	root := filepath.Join(dir, "m")
	os.RemoveAll(root)
	m.Write(root)
	defer os.RemoveAll(root)
	clauses := 0
	viol := func(oracle, detail string) {
		w.Report(mc.Violation{Property: "C16", Oracle: oracle, Signature: "discovery:" + oracle, Scenario: spec.Name,
			Trace: []string{fmt.Sprintf("%+v", *spec)}, Detail: detail})
	}
	eq := func(oracle, what, got, want string) {
		clauses++
		if got != want {
			viol(oracle, fmt.Sprintf("%s: discovered %q, machine has %q", what, got, want))
		}
	}
	var sys System
	var err error
	p, msg, where := mc.Guard(func() { sys, err = DiscoverSystemAt(filepath.Join(root, "sys")) })
	if p {
		viol("discovery-panics@"+where, msg)
		return clauses
	}
	if err != nil {
		viol("discovery-fails", err.Error())
		return clauses
	}
	var ids, offline []int
	for _, c := range m.CPUs {
		ids = append(ids, c.ID)
		if !c.Online {
			offline = append(offline, c.ID)
		}
	}
	eq("cpu-ids", "CPUIDs", c16ints(sys.CPUIDs()), c16ints(ids))
	eq("online", "OnlineCPUs", sys.OnlineCPUs().String(), c16ints(m.OnlineCPUs()))
	eq("offline", "Offlined", sys.Offlined().String(), c16ints(offline))
	eq("isolated", "Isolated", sys.Isolated().String(), c16ints(m.IsolatedCPUs()))
	pkgs := map[int][]int{}
	for _, c := range m.CPUs {
		cpu := sys.CPU(c.ID)
		if cpu == nil {
			viol("cpu-missing", fmt.Sprintf("CPU %d not discovered", c.ID))
			continue
		}
		name := fmt.Sprintf("CPU(%d)", c.ID)
		eq("cpu-node", name+".NodeID", fmt.Sprint(cpu.NodeID()), fmt.Sprint(c.Node))
		eq("cpu-online", name+".Online", fmt.Sprint(cpu.Online()), fmt.Sprint(c.Online))
		eq("cpu-isolated", name+".Isolated", fmt.Sprint(cpu.Isolated()), fmt.Sprint(c.Isolated))
		if !c.Online {
			continue
		}
		pkgs[c.Pkg] = append(pkgs[c.Pkg], c.ID)
		eq("cpu-package", name+".PackageID", fmt.Sprint(cpu.PackageID()), fmt.Sprint(c.Pkg))
		if !spec.NoDieID {
			eq("cpu-die", name+".DieID", fmt.Sprint(cpu.DieID()), fmt.Sprint(c.Die))
		}
		eq("cpu-core", name+".CoreID", fmt.Sprint(cpu.CoreID()), fmt.Sprint(c.CoreFile))
		eq("cpu-cluster", name+".ClusterID", fmt.Sprint(cpu.ClusterID()), fmt.Sprint(c.Cluster))
		eq("cpu-threads", name+".ThreadCPUSet", cpu.ThreadCPUSet().String(), c16ints(c.Threads))
		if spec.ECores != nil {
			want := PerformanceCore
			if c.ECore {
				want = EfficientCore
			}
			eq("cpu-corekind", name+".CoreKind", cpu.CoreKind().String(), want.String())
		}
		if v, ok := spec.BaseFreq[c.ID]; ok {
			eq("cpu-basefreq", name+".BaseFrequency", fmt.Sprint(cpu.BaseFrequency()), fmt.Sprint(v))
		}
		if v, ok := spec.EPP[c.ID]; ok {
			eq("cpu-epp", name+".EPP", cpu.EPP().String(), v)
		}
		// caches, through every accessor
		render := func(cs []*Cache) string {
			var out []string
			for _, ch := range cs {
				out = append(out, fmt.Sprintf("L%d/%s/id%d/%dK/%s", ch.Level(), ch.Type(), ch.ID(), ch.Size()/1024, ch.SharedCPUSet()))
			}
			return strings.Join(out, " ")
		}
		renderRef := func(cs []sysgen.Cache) string {
			var out []string
			for _, ch := range cs {
				out = append(out, fmt.Sprintf("L%d/%s/id%d/%dK/%s", ch.Level, strings.ToLower(ch.Type), ch.ID, ch.SizeK, c16ints(ch.Shared)))
			}
			return strings.ToLower(strings.Join(out, " "))
		}
		eq("cache-count", name+".CacheCount", fmt.Sprint(cpu.CacheCount()), fmt.Sprint(len(c.Caches)))
		eq("cache-list", name+".GetCaches", strings.ToLower(render(cpu.GetCaches())), renderRef(c.Caches))
		var byIdx []*Cache
		for i := range c.Caches {
			if ch := cpu.GetCacheByIndex(i); ch != nil {
				byIdx = append(byIdx, ch)
			}
		}
		eq("cache-by-index", name+".GetCacheByIndex(*)", strings.ToLower(render(byIdx)), renderRef(c.Caches))
		last := 0
		for _, ch := range c.Caches {
			if ch.Level > last {
				last = ch.Level
			}
		}
		for lvl := 1; lvl <= 3; lvl++ {
			var ref []sysgen.Cache
			shared := map[int]bool{}
			for _, ch := range c.Caches {
				if ch.Level == lvl {
					ref = append(ref, ch)
					for _, x := range ch.Shared {
						shared[x] = true
					}
				}
			}
			eq("cache-by-level", fmt.Sprintf("%s.GetCachesByLevel(%d)", name, lvl), strings.ToLower(render(cpu.GetCachesByLevel(lvl))), renderRef(ref))
			if len(c.Caches) > 0 {
				var sl []int
				for x := range shared {
					sl = append(sl, x)
				}
				eq("cache-level-cpuset", fmt.Sprintf("%s.GetNthLevelCacheCPUSet(%d)", name, lvl), cpu.GetNthLevelCacheCPUSet(lvl).String(), c16ints(sl))
			}
			if lvl == last {
				eq("cache-last-level", name+".GetLastLevelCaches", strings.ToLower(render(cpu.GetLastLevelCaches())), renderRef(ref))
				var sl []int
				for x := range shared {
					sl = append(sl, x)
				}
				eq("cache-last-level-cpuset", name+".GetLastLevelCacheCPUSet", cpu.GetLastLevelCacheCPUSet().String(), c16ints(sl))
			}
		}
	}
	var pids []int
	for p := range pkgs {
		pids = append(pids, p)
	}
	eq("package-ids", "PackageIDs", c16ints(sys.PackageIDs()), c16ints(pids))
	for p, cpus := range pkgs {
		if pk := sys.Package(p); pk != nil {
			eq("package-cpus", fmt.Sprintf("Package(%d).CPUSet", p), pk.CPUSet().String(), c16ints(cpus))
		}
	}
	var nids []int
	for _, n := range m.Nodes {
		nids = append(nids, n.ID)
	}
	eq("node-ids", "NodeIDs", c16ints(sys.NodeIDs()), c16ints(nids))
	for _, n := range m.Nodes {
		nd := sys.Node(n.ID)
		if nd == nil {
			viol("node-missing", fmt.Sprintf("node %d not discovered", n.ID))
			continue
		}
		name := fmt.Sprintf("Node(%d)", n.ID)
		var on []int
		for _, c := range n.CPUs {
			if m.CPUs[c].Online {
				on = append(on, c)
			}
		}
		eq("node-cpus", name+".CPUSet", nd.CPUSet().String(), c16ints(on))
		eq("node-distance", name+".Distance", fmt.Sprint(nd.Distance()), fmt.Sprint(n.Distance))
		for _, o := range m.Nodes {
			eq("node-distance", fmt.Sprintf("NodeDistance(%d,%d)", n.ID, o.ID), fmt.Sprint(sys.NodeDistance(n.ID, o.ID)), fmt.Sprint(n.Distance[o.ID]))
		}
		mi, err := nd.MemoryInfo()
		if err != nil {
			viol("node-meminfo", fmt.Sprintf("%s.MemoryInfo: %v", name, err))
		} else {
			eq("node-memtotal", name+".MemoryInfo.MemTotal", fmt.Sprint(mi.MemTotal), fmt.Sprint(uint64(n.MemKB)*1024))
			eq("node-memfree", name+".MemoryInfo.MemFree", fmt.Sprint(mi.MemFree), fmt.Sprint(uint64(n.MemKB/2)*1024))
		}
		eq("node-normal", name+".HasNormalMemory", fmt.Sprint(nd.HasNormalMemory()), fmt.Sprint(n.Normal))
		if !n.Extra && len(on) > 0 {
			eq("node-package", name+".PackageID", fmt.Sprint(nd.PackageID()), fmt.Sprint(n.Pkg))
			if !spec.NoDieID {
				eq("node-die", name+".DieID", fmt.Sprint(nd.DieID()), fmt.Sprint(n.Die))
			}
		}
	}
	return clauses
}

// C16Family enumerates the machine family. quick: a few hundred machines, thorough: a few thousand.
func c16Family(thorough bool) []*sysgen.Spec {
	var out []*sysgen.Spec
	pkgsL := []int{1, 2, 4}
	diesL := []int{1, 2}
	npdL := []int{1, 2}
	coresL := []int{1, 2}
	thrL := []int{1, 2}
	if thorough {
		coresL = []int{1, 2, 3}
	}
	for _, p := range pkgsL {
		for _, d := range diesL {
			for _, n := range npdL {
				for _, c := range coresL {
					for _, t := range thrL {
						if p*d*n*c*t > 48 {
							continue
						}
						base := sysgen.Spec{Packages: p, Dies: d, NodesPerDie: n, CoresPerNode: c, Threads: t}
						ncpu := p * d * n * c * t
						nnodes := p * d * n
						variants := []func(s *sysgen.Spec) bool{
							func(s *sysgen.Spec) bool { return true },
							func(s *sysgen.Spec) bool { s.AdjacentHT = true; return t > 1 },
							func(s *sysgen.Spec) bool { s.Offline = []int{ncpu - 1}; return ncpu > 1 },
							func(s *sysgen.Spec) bool { s.Isolated = []int{ncpu - 1}; return ncpu > 1 },
							func(s *sysgen.Spec) bool {
								if ncpu < 4 {
									return false
								}
								s.Isolated = []int{1, 2}
								s.Offline = []int{3}
								return true
							},
							func(s *sysgen.Spec) bool {
								s.Extras = []sysgen.Extra{{MemKB: 16 << 20, CloseTo: []int{0}}}
								return true
							},
							func(s *sysgen.Spec) bool {
								if nnodes < 2 {
									return false
								}
								s.Extras = []sysgen.Extra{{MemKB: 16 << 20, CloseTo: []int{0}}, {MemKB: 16 << 20, CloseTo: []int{nnodes - 1}}, {MemKB: 1 << 20, CloseTo: []int{0, 1}}}
								return true
							},
							func(s *sysgen.Spec) bool {
								if nnodes < 2 {
									return false
								}
								s.NodeMemKB = map[int]int64{1: 0}
								return true
							},
							func(s *sysgen.Spec) bool {
								if nnodes < 2 {
									return false
								}
								s.NodeMemKB = map[int]int64{0: 2 << 20, nnodes - 1: 9 << 20}
								s.MovableNodes = []int{nnodes - 1}
								return true
							},
							func(s *sysgen.Spec) bool { s.L3 = "package"; s.ClusterCores = 2; s.L2PerCluster = true; return c > 1 },
							func(s *sysgen.Spec) bool { s.CoreIDPerDie = true; return d > 1 },
							func(s *sysgen.Spec) bool {
								s.CoreIDPerDie = true
								s.AdjacentHT = true
								s.L3 = "die"
								return d > 1 && t > 1
							},
							func(s *sysgen.Spec) bool { s.L3 = "none"; return true },
							func(s *sysgen.Spec) bool { s.NoCaches = true; return true },
							func(s *sysgen.Spec) bool {
								if c < 2 {
									return false
								}
								m := s.Model()
								// last core of every node is an E-core
								for _, cpu := range m.CPUs {
									if cpu.Core%c == c-1 {
										s.ECores = append(s.ECores, cpu.ID)
									}
								}
								return true
							},
							func(s *sysgen.Spec) bool {
								s.BaseFreq, s.MinFreq, s.MaxFreq, s.EPP = map[int]uint64{}, map[int]uint64{}, map[int]uint64{}, map[int]string{}
								for i := 0; i < ncpu; i++ {
									s.BaseFreq[i] = 2000000 + uint64(i%2)*400000
									s.MinFreq[i] = 800000
									s.MaxFreq[i] = 3000000 + uint64(i%3)*100000
									s.EPP[i] = []string{"performance", "balance_performance", "balance_power", "power"}[i%4]
								}
								return true
							},
						}
						for vi, v := range variants {
							s := base
							if !v(&s) {
								continue
							}
							s.Name = fmt.Sprintf("p%dd%dn%dc%dt%d/v%d", p, d, n, c, t, vi)
							out = append(out, &s)
						}
					}
				}
			}
		}
	}
	return out
}

func TestVerifC16Discovery(t *testing.T) {
	logger.SetLevel(logger.LevelPanic)
	w := mc.NewWorker(t, "C16")
	defer w.Finish()
	dir := os.Getenv("VERIF_SCRATCH")
	if dir == "" {
		dir = t.TempDir()
	}
	fam := c16Family(w.Thorough())
	if w.ReplayV != nil {
		for _, s := range fam {
			if s.Name == w.ReplayV.Scenario {
				w.Replayer = nil
				c16Check(w, s, dir)
			}
		}
		for _, v := range w.Res.Violations {
			t.Logf("REPLAY %s %s: %s", v.Property, v.Signature, v.Detail)
		}
		return
	}
	for i, s := range fam {
		if !w.Mine(i) {
			continue
		}
		n := c16Check(w, s, dir)
		w.Res.Evaluations++
		w.Count("clauses", int64(n))
		if len(s.Extras) > 0 || len(s.Offline) > 0 || len(s.Isolated) > 0 || s.NodeMemKB != nil || s.ECores != nil {
			w.Res.Nontrivial++
		}
		if i < 40 && i%13 == 0 {
			w.Sample(map[string]any{"machine": s.Name, "spec": fmt.Sprintf("%+v", *s)})
		}
	}
}
