//go:build verif

package cpuallocator

// C08: the CPU allocator contract on every (topology, candidate set, count,
// priority, flags) of a bounded family, plus determinism under map-order
// policies (owned through pkg/verif/mapiter).

import (
	"fmt"
	"os"
	"path/filepath"
	"sync/atomic"
	"testing"

	logger "github.com/containers/nri-plugins/pkg/log"
	"github.com/containers/nri-plugins/pkg/sysfs"
	"github.com/containers/nri-plugins/pkg/utils/cpuset"
	"github.com/containers/nri-plugins/pkg/verif/mapiter"
	"github.com/containers/nri-plugins/pkg/verif/mc"
	"github.com/containers/nri-plugins/pkg/verif/sysgen"
)

func c08Topologies(thorough bool) []*sysgen.Spec {
	freq := func(s *sysgen.Spec, n int) {
		s.BaseFreq, s.MinFreq, s.MaxFreq, s.EPP = map[int]uint64{}, map[int]uint64{}, map[int]uint64{}, map[int]string{}
		for i := 0; i < n; i++ {
			s.BaseFreq[i] = 2000000 + uint64((i/2)%2)*400000
			s.MinFreq[i] = 800000
			s.MaxFreq[i] = 3000000
			s.EPP[i] = []string{"performance", "balance_performance", "balance_power", "power"}[(i/2)%4]
		}
	}
	var out []*sysgen.Spec
	add := func(s sysgen.Spec) { c := s; out = append(out, &c) }
	add(sysgen.Spec{Name: "1p-4c-2t", Packages: 1, CoresPerNode: 4, Threads: 2})
	add(sysgen.Spec{Name: "no-system", Packages: 1, CoresPerNode: 4, Threads: 2})
	add(sysgen.Spec{Name: "1p-4c-2t-adj", Packages: 1, CoresPerNode: 4, Threads: 2, AdjacentHT: true})
	add(sysgen.Spec{Name: "2p-2c-2t", Packages: 2, CoresPerNode: 2, Threads: 2})
	add(sysgen.Spec{Name: "2p-2n-2c", Packages: 2, NodesPerDie: 2, CoresPerNode: 2, Threads: 1})
	add(sysgen.Spec{Name: "1p-2d-2c-2t", Packages: 1, Dies: 2, CoresPerNode: 2, Threads: 2})
	add(sysgen.Spec{Name: "1p-8c-clusters", Packages: 1, CoresPerNode: 8, Threads: 1, ClusterCores: 2, L2PerCluster: true, L3: "package"})
	add(sysgen.Spec{Name: "1p-8c-clusters4", Packages: 1, CoresPerNode: 8, Threads: 1, ClusterCores: 4, L2PerCluster: true, L3: "package"})
	{
		s := sysgen.Spec{Name: "hybrid-2P2t-4E", Packages: 1, CoresPerNode: 6, Threads: 1, ClusterCores: 2, L2PerCluster: true, L3: "package", ECores: []int{2, 3, 4, 5}}
		add(s)
	}
	// last-level caches that split every package into two groups of two cores (a group is neither a core, a die nor a
	// package): the cache-group stage runs with groups in two packages
	add(sysgen.Spec{Name: "2p-2n-2c-l3node", Packages: 2, NodesPerDie: 2, CoresPerNode: 2, Threads: 1, L3: "node"})
	// clusters / L2 cache groups in two dies of one package, and in two packages: the tie-breaking on die and package of the
	// cluster and cache-group sorters runs (coverage.sh showed those branches were never taken)
	add(sysgen.Spec{Name: "1p-2d-4c-cl2", Packages: 1, Dies: 2, CoresPerNode: 4, Threads: 1, ClusterCores: 2, L2PerCluster: true, L3: "die"})
	add(sysgen.Spec{Name: "2p-4c-cl2-hybrid", Packages: 2, CoresPerNode: 4, Threads: 1, ClusterCores: 2, L2PerCluster: true, L3: "package", ECores: []int{3, 7}})
	// hybrid and clustered across two packages: the cluster stage runs with candidate sets that span packages
	add(sysgen.Spec{Name: "2p-hybrid-clusters", Packages: 2, CoresPerNode: 4, Threads: 1, ClusterCores: 2, L2PerCluster: true, L3: "package", ECores: []int{2, 3, 6, 7}})
	// one package, two dies, each with a hyperthreaded P-core that is its own cluster and a cluster of two single-threaded
	// E-cores (the shape of real multi-tile hybrid parts): the merging of single-core clusters into one P-cluster runs per die
	add(sysgen.Spec{Name: "1p-2d-hybrid-1Pht+2E", Packages: 1, Dies: 2, CoresPerNode: 3, L2PerCluster: true, L3: "die",
		CoreThreads: []int{2, 1, 1, 2, 1, 1}, ClusterOfCore: []int{0, 1, 1, 2, 3, 3}, ECores: []int{2, 3, 6, 7}})
	{
		s := sysgen.Spec{Name: "2p-2c-2t-freq", Packages: 2, CoresPerNode: 2, Threads: 2}
		freq(&s, 8)
		add(s)
	}
	{
		s := sysgen.Spec{Name: "1p-4c-2t-freq-iso", Packages: 1, CoresPerNode: 4, Threads: 2, Isolated: []int{3, 7}}
		freq(&s, 8)
		add(s)
	}
	add(sysgen.Spec{Name: "2p-2c-2t-offline", Packages: 2, CoresPerNode: 2, Threads: 2, Offline: []int{7}})
	add(sysgen.Spec{Name: "1p-4c-nocache", Packages: 1, CoresPerNode: 4, Threads: 2, NoCaches: true})
	add(sysgen.Spec{Name: "2p-2d-1c-2t-l3node", Packages: 2, Dies: 2, CoresPerNode: 1, Threads: 2, L3: "node"})
	if thorough {
		add(sysgen.Spec{Name: "2p-3c-2t", Packages: 2, CoresPerNode: 3, Threads: 2})
		add(sysgen.Spec{Name: "1p-2d-3c-2t", Packages: 1, Dies: 2, CoresPerNode: 3, Threads: 2})
		add(sysgen.Spec{Name: "1p-12c-clusters4", Packages: 1, CoresPerNode: 12, Threads: 1, ClusterCores: 4, L2PerCluster: true, L3: "package"})
		s := sysgen.Spec{Name: "hybrid-4P2t-4E", Packages: 1, CoresPerNode: 6, Threads: 2, AdjacentHT: true, ClusterCores: 2, L2PerCluster: true, L3: "package"}
		s.ECores = []int{8, 9, 10, 11}
		add(s)
		add(sysgen.Spec{Name: "1p-2d-hybrid-2Pht+2E", Packages: 1, Dies: 2, CoresPerNode: 4, L2PerCluster: true, L3: "die",
			CoreThreads: []int{2, 2, 1, 1, 2, 2, 1, 1}, ClusterOfCore: []int{0, 1, 2, 2, 3, 4, 5, 5}, ECores: []int{4, 5, 10, 11}})
		s2 := sysgen.Spec{Name: "2p-3c-2t-freq", Packages: 2, CoresPerNode: 3, Threads: 2}
		freq(&s2, 12)
		add(s2)
	}
	return out
}

type c08Input struct {
	op    string // "alloc" or "release"
	from  cpuset.CPUSet
	cnt   int
	prio  CPUPriority
	flags int // -1 = default (no option)
}

func (in c08Input) String() string {
	return fmt.Sprintf("%s from=%s cnt=%d prio=%d flags=%d", in.op, in.from, in.cnt, in.prio, in.flags)
}

func (in c08Input) call(a CPUAllocator) (res cpuset.CPUSet, from cpuset.CPUSet, err error) {
	from = in.from.Clone()
	opts := []Option{WithPriority(in.prio)}
	if in.flags >= 0 {
		opts = append(opts, WithAllocFlags(AllocFlag(in.flags)))
	}
	if in.op == "alloc" {
		res, err = a.AllocateCpus(&from, in.cnt, opts...)
	} else {
		res, err = a.ReleaseCpus(&from, in.cnt, opts...)
	}
	return
}

// c08Eq compares set contents (the zero CPUSet and an empty set are the same set).
func c08Eq(a, b cpuset.CPUSet) bool { return a.Size() == b.Size() && a.IsSubsetOf(b) }

func TestVerifC08(t *testing.T) {
	logger.SetLevel(logger.LevelPanic)
	w := mc.NewWorker(t, "C08")
	defer w.Finish()
	dir := os.Getenv("VERIF_SCRATCH")
	if dir == "" {
		dir = t.TempDir()
	}
	topos := c08Topologies(w.Thorough())
	flagSets := []int{-1, 0, int(AllocIdlePackages), int(AllocIdleClusters), int(AllocCacheGroups), int(AllocIdleCores)}
	if w.Thorough() {
		flagSets = []int{-1}
		for f := 0; f < 16; f++ {
			flagSets = append(flagSets, f)
		}
	}
	prios := []CPUPriority{PriorityHigh, PriorityNormal, PriorityLow, PriorityNone}
	outcomes := map[string]bool{}
	item := 0
	replay := ""
	if w.ReplayV != nil {
		replay = w.ReplayV.Trace[0]
		w.Replayer = nil
	}
	for _, spec := range topos {
		m := spec.Model()
		root := filepath.Join(dir, "c08")
		os.RemoveAll(root)
		m.Write(root)
		var lastSys sysfs.System
		build := func(policy int32, rot int32) CPUAllocator {
			atomic.StoreInt32(&mapiter.Policy, policy)
			atomic.StoreInt32(&mapiter.RotateBy, rot)
			if spec.Name == "no-system" {
				return NewCPUAllocator(nil) // the allocator without topology information (takeAny)
			}
			sys, err := sysfs.DiscoverSystemAt(filepath.Join(root, "sys"))
			if err != nil {
				t.Fatalf("discover %s: %v", spec.Name, err)
			}
			lastSys = sys
			return NewCPUAllocator(sys)
		}
		type variant struct {
			name   string
			policy int32
			rot    int32
			a      CPUAllocator
		}
		vars := []*variant{{"sorted", mapiter.Sorted, 0, nil}, {"sorted-fresh", mapiter.Sorted, 0, nil}, {"reverse", mapiter.Reverse, 0, nil}, {"rotate1", mapiter.Rotate, 1, nil}}
		if w.Thorough() {
			vars = append(vars, &variant{"rotate2", mapiter.Rotate, 2, nil})
		}
		for _, v := range vars {
			v.a = build(v.policy, v.rot)
		}
		// an allocator without any history: built anew for every single request (on the system discovered last), so that an
		// answer that depends on what the long-lived allocators were asked before shows as a disagreement
		freshSys := lastSys
		vars = append(vars, &variant{"no-history", mapiter.Sorted, 0, nil})
		online := m.OnlineCPUs()
		n := len(online)
		for mask := 0; mask < 1<<uint(n); mask++ {
			if replay == "" && !w.Mine(item) {
				item++
				continue
			}
			item++
			if w.Expired() {
				w.Cap("deadline reached in topology %s", spec.Name)
				break
			}
			var ids []int
			for i := 0; i < n; i++ {
				if mask&(1<<uint(i)) != 0 {
					ids = append(ids, online[i])
				}
			}
			from := cpuset.New(ids...)
			for _, op := range []string{"alloc", "release"} {
				for cnt := 0; cnt <= len(ids)+1; cnt++ {
					if op == "release" && cnt > len(ids) {
						continue // the statement constrains releases of n <= |set| only
					}
					for _, prio := range prios {
						for _, fl := range flagSets {
							in := c08Input{op, from, cnt, prio, fl}
							label := spec.Name + ": " + in.String()
							if replay != "" && replay != label {
								continue
							}
							viol := func(oracle, detail string) {
								w.Report(mc.Violation{Property: "C08", Oracle: oracle, Signature: oracle, Scenario: spec.Name,
									Trace: []string{label}, Detail: detail})
							}
							var ref string
							for vi, v := range vars {
								atomic.StoreInt32(&mapiter.Policy, v.policy)
								atomic.StoreInt32(&mapiter.RotateBy, v.rot)
								var res, after cpuset.CPUSet
								var err error
								if v.name == "no-history" {
									if spec.Name == "no-system" {
										v.a = NewCPUAllocator(nil)
									} else {
										v.a = NewCPUAllocator(freshSys)
									}
								}
								p, msg, where := mc.Guard(func() { res, after, err = in.call(v.a) })
								w.Res.Evaluations++
								if p {
									viol("panic@"+where, fmt.Sprintf("%s panics: %s", label, msg))
									break
								}
								got := fmt.Sprintf("%s|%s|%v", res, after, err != nil)
								if vi == 0 {
									ref = got
									outcomes[spec.Name+got] = true
									// the contract
									want := cnt
									removed := from.Difference(after)
									switch {
									case op == "alloc" && cnt > from.Size():
										if err == nil {
											viol("overlarge-request-succeeds", fmt.Sprintf("%s returned %s without error", label, res))
										}
										if !c08Eq(after, from) {
											viol("failed-request-changed-set", fmt.Sprintf("%s failed but the set became %s", label, after))
										}
									case op == "alloc":
										if err != nil {
											viol("feasible-request-fails", fmt.Sprintf("%s: %v", label, err))
											break
										}
										if res.Size() != want {
											viol("wrong-count", fmt.Sprintf("%s returned %s (%d CPUs)", label, res, res.Size()))
										}
										if !res.IsSubsetOf(from) {
											viol("result-not-subset", fmt.Sprintf("%s returned %s", label, res))
										}
										if !c08Eq(removed, res) || !after.IsSubsetOf(from) {
											viol("set-bookkeeping", fmt.Sprintf("%s returned %s but the set went from %s to %s", label, res, from, after))
										}
									case op == "release":
										if err != nil {
											viol("feasible-request-fails", fmt.Sprintf("%s: %v", label, err))
											break
										}
										// on return *from holds the n released CPUs, the result the CPUs kept
										if after.Size() != cnt || !after.IsSubsetOf(from) {
											viol("wrong-count", fmt.Sprintf("%s: released set %s (%d CPUs)", label, after, after.Size()))
										}
										if !c08Eq(res, from.Difference(after)) {
											viol("set-bookkeeping", fmt.Sprintf("%s: released %s, kept %s, original %s", label, after, res, from))
										}
									}
								} else if got != ref {
									viol("nondeterministic:"+v.name, fmt.Sprintf("%s gives %q on allocator/map order %q but %q on %q", label, got, v.name, ref, vars[0].name))
								}
							}
							if cnt > 0 && cnt < from.Size() {
								w.Res.Nontrivial++
							}
						}
					}
				}
			}
			if mask == 1<<uint(n)-1 && len(w.Res.Samples) < 3 {
				r, after, _ := c08Input{"alloc", from, n / 2, PriorityNone, -1}.call(vars[0].a)
				w.Sample(map[string]any{"topology": spec.Name, "from": from.String(), "cnt": n / 2, "result": r.String(), "remaining": after.String()})
			}
		}
		os.RemoveAll(root)
	}
	atomic.StoreInt32(&mapiter.Policy, mapiter.Sorted)
	w.Res.Outcomes = int64(len(outcomes))
	if replay != "" {
		for _, v := range w.Res.Violations {
			t.Logf("REPLAY %s %s: %s", v.Property, v.Signature, v.Detail)
		}
	}
}
