//go:build verif

// Package mapiter owns Go map iteration order for the verification harnesses.
// vgen rewrites `for k, v := range m` (m a map) in first-party code into
// `for k, v := range mapiter.Seq2(m, site)`.
package mapiter

import (
	"fmt"
	"iter"
	"reflect"
	"sort"
	"sync/atomic"
)

// Policy values.
const (
	Sorted = iota
	Reverse
	Rotate // rotate the sorted order by RotateBy
	Native // do not interfere
)

var (
	// Policy is the global order policy, set by a harness between executions.
	Policy int32 = Sorted
	// RotateBy is used by the Rotate policy.
	RotateBy int32 = 1
	// SitePerm, when non-nil, maps a site to an explicit permutation (indices into the sorted key list).
	SitePerm map[string][]int
	// LenPerm, when non-nil, maps a map length to an explicit permutation applied at every site whose map has that length.
	LenPerm map[int][]int
	// Calls counts range statements executed through Seq2.
	Calls atomic.Int64
	// Sites records which sites were hit (only when RecordSites is true).
	RecordSites bool
	SiteHits    = map[string]int{}
)

type named interface{ Name() string }
type ider interface{ GetID() string }

func keyString(k any) string {
	switch v := k.(type) {
	case string:
		return v
	case fmt.Stringer:
		rv := reflect.ValueOf(k)
		if rv.Kind() == reflect.Pointer && rv.IsNil() {
			return "<nil>"
		}
		if n, ok := k.(named); ok {
			return n.Name()
		}
		if n, ok := k.(ider); ok {
			return n.GetID()
		}
		return v.String()
	case named:
		return v.Name()
	case ider:
		return v.GetID()
	}
	rv := reflect.ValueOf(k)
	if rv.Kind() == reflect.Pointer && !rv.IsNil() {
		return fmt.Sprintf("%+v", rv.Elem().Interface())
	}
	return fmt.Sprintf("%+v", k)
}

func sortKeys[K comparable](keys []K) {
	if len(keys) < 2 {
		return
	}
	switch ks := any(keys).(type) {
	case []string:
		sort.Strings(ks)
		return
	case []int:
		sort.Ints(ks)
		return
	}
	rv := reflect.ValueOf(keys[0])
	switch rv.Kind() {
	case reflect.Int, reflect.Int8, reflect.Int16, reflect.Int32, reflect.Int64:
		sort.Slice(keys, func(i, j int) bool {
			return reflect.ValueOf(keys[i]).Int() < reflect.ValueOf(keys[j]).Int()
		})
		return
	case reflect.Uint, reflect.Uint8, reflect.Uint16, reflect.Uint32, reflect.Uint64, reflect.Uintptr:
		sort.Slice(keys, func(i, j int) bool {
			return reflect.ValueOf(keys[i]).Uint() < reflect.ValueOf(keys[j]).Uint()
		})
		return
	case reflect.String:
		sort.Slice(keys, func(i, j int) bool {
			return reflect.ValueOf(keys[i]).String() < reflect.ValueOf(keys[j]).String()
		})
		return
	}
	strs := make([]string, len(keys))
	for i, k := range keys {
		strs[i] = keyString(k)
	}
	idx := make([]int, len(keys))
	for i := range idx {
		idx[i] = i
	}
	sort.SliceStable(idx, func(a, b int) bool { return strs[idx[a]] < strs[idx[b]] })
	tmp := make([]K, len(keys))
	for i, j := range idx {
		tmp[i] = keys[j]
	}
	copy(keys, tmp)
}

// Seq2 iterates m in the order chosen by the current policy. Entries deleted
// during the loop are skipped, entries added during the loop are not visited;
// both are behaviours the Go specification allows for a native range.
func Seq2[M ~map[K]V, K comparable, V any](m M, site string) iter.Seq2[K, V] {
	if atomic.LoadInt32(&Policy) == Native {
		return func(yield func(K, V) bool) {
			for k, v := range m {
				if !yield(k, v) {
					return
				}
			}
		}
	}
	return func(yield func(K, V) bool) {
		Calls.Add(1)
		if RecordSites {
			SiteHits[site]++
		}
		if len(m) == 0 {
			return
		}
		keys := make([]K, 0, len(m))
		for k := range m {
			keys = append(keys, k)
		}
		sortKeys(keys)
		n := len(keys)
		order := make([]int, n)
		for i := range order {
			order[i] = i
		}
		if p, ok := SitePerm[site]; ok && len(p) == n {
			copy(order, p)
		} else if p, ok := LenPerm[n]; ok && len(p) == n {
			copy(order, p)
		} else {
			switch atomic.LoadInt32(&Policy) {
			case Reverse:
				for i := range order {
					order[i] = n - 1 - i
				}
			case Rotate:
				r := int(atomic.LoadInt32(&RotateBy))
				for i := range order {
					order[i] = (i + r) % n
				}
			}
		}
		for _, i := range order {
			k := keys[i]
			v, ok := m[k]
			if !ok {
				continue
			}
			if !yield(k, v) {
				return
			}
		}
	}
}

// Permutations returns all permutations of 0..n-1 (n small).
func Permutations(n int) [][]int {
	var out [][]int
	var rec func(cur []int, used []bool)
	rec = func(cur []int, used []bool) {
		if len(cur) == n {
			out = append(out, append([]int{}, cur...))
			return
		}
		for i := 0; i < n; i++ {
			if !used[i] {
				used[i] = true
				rec(append(cur, i), used)
				used[i] = false
			}
		}
	}
	rec(nil, make([]bool, n))
	return out
}
