//go:build verif

// Package sysgen generates synthetic sysfs trees from a parameter record. The
// record (Spec) and the Model derived from it are the single source of
// hardware truth for every check that needs a machine: discovery is judged
// against the Model, never against another run of the code under test.
package sysgen

import (
	"fmt"
	"os"
	"path/filepath"
	"sort"
	"strconv"
	"strings"
)

// Extra is a CPU-less memory node.
type Extra struct {
	MemKB   int64 // size decides PMEM (>= average DRAM) vs HBM (< average DRAM) by the code's documented heuristic
	CloseTo []int // CPU-bearing nodes this node is closest to
	Movable bool  // memory is movable-only (not in has_normal_memory)
}

// Spec describes a machine.
type Spec struct {
	Name         string
	Packages     int
	Dies         int // per package
	NodesPerDie  int
	CoresPerNode int
	Threads      int  // per core
	AdjacentHT   bool // siblings numbered 2k,2k+1 (else k, k+ncores)
	// CoreThreads, when set, gives the number of threads of each core (indexed by the core's number within its package) and
	// overrides Threads; CPUs are then numbered consecutively core by core. ClusterOfCore, when set, gives the cluster id of
	// each core (same index) and overrides ClusterCores. Together they describe real hybrid parts: hyperthreaded P-cores that
	// are each their own cluster next to clusters of several single-threaded E-cores.
	CoreThreads   []int
	ClusterOfCore []int
	Offline       []int
	Isolated      []int
	NodeMemKB     map[int]int64 // per CPU node override; default DefaultMemKB; 0 = memory-less
	MovableNodes  []int         // CPU nodes whose memory is movable-only
	DefaultMemKB  int64
	Extras        []Extra
	ClusterCores  int    // cores per cluster (0: every core its own cluster id)
	L2PerCluster  bool   // L2 shared by the cluster instead of the core
	L3            string // "die" (default), "package", "node", "none"
	NoCaches      bool
	ECores        []int // CPUs (all threads) that are E-cores; rest P-cores; nil = no hybrid files
	BaseFreq      map[int]uint64
	MaxFreq       map[int]uint64
	MinFreq       map[int]uint64
	EPP           map[int]string
	NoDieID       bool
	CoreIDPerDie  bool // core_id restarts at 0 in every die (AMD multi-die packages, device-tree ARM): not unique within a package
	Devices       []Device
}

// Device is a character device with a PCI parent that has NUMA locality (what topology hints are derived from).
type Device struct {
	Major, Minor int64
	Node         int    // numa_node of the PCI parent
	CPUs         string // local_cpulist of the PCI parent
}

// CPU is the reference description of one CPU.
type CPU struct {
	ID, Pkg, Die, Node, Core, Cluster int
	CoreFile                          int // the value written to topology/core_id (Core, or the per-die index)
	Threads                           []int
	Online, Isolated, ECore           bool
	Caches                            []Cache // index order
}

// Cache is the reference description of one cache of one CPU.
type Cache struct {
	ID, Level int
	Type      string
	SizeK     int
	Shared    []int
}

// Node is the reference description of a NUMA node.
type Node struct {
	ID       int
	CPUs     []int // online CPUs of the node (what the kernel lists in cpulist)
	MemKB    int64
	Normal   bool
	Distance []int
	Pkg, Die int // -1 for CPU-less nodes
	Extra    bool
	CloseTo  []int
}

// Model is what a faithful discovery must report.
type Model struct {
	Spec  *Spec
	CPUs  []CPU
	Nodes []Node
}

func has(l []int, v int) bool {
	for _, x := range l {
		if x == v {
			return true
		}
	}
	return false
}

// Model derives the reference model.
func (s *Spec) Model() *Model {
	if s.Dies == 0 {
		s.Dies = 1
	}
	if s.NodesPerDie == 0 {
		s.NodesPerDie = 1
	}
	if s.Threads == 0 {
		s.Threads = 1
	}
	if s.DefaultMemKB == 0 {
		s.DefaultMemKB = 4 * 1024 * 1024
	}
	m := &Model{Spec: s}
	ncores := s.Packages * s.Dies * s.NodesPerDie * s.CoresPerNode
	ncpu := ncores * s.Threads
	if s.CoreThreads != nil {
		ncpu = 0
		for _, n := range s.CoreThreads {
			ncpu += n
		}
		ncpu *= s.Packages
	}
	nextCPU := 0
	m.CPUs = make([]CPU, ncpu)
	core := 0
	nnodes := s.Packages * s.Dies * s.NodesPerDie
	for p := 0; p < s.Packages; p++ {
		coreInPkg := 0
		for d := 0; d < s.Dies; d++ {
			coreInDie := 0
			for n := 0; n < s.NodesPerDie; n++ {
				node := (p*s.Dies+d)*s.NodesPerDie + n
				for c := 0; c < s.CoresPerNode; c++ {
					var ths []int
					for t := 0; s.CoreThreads != nil && t < s.CoreThreads[coreInPkg]; t++ {
						ths = append(ths, nextCPU)
						nextCPU++
					}
					for t := 0; s.CoreThreads == nil && t < s.Threads; t++ {
						if s.AdjacentHT {
							ths = append(ths, core*s.Threads+t)
						} else {
							ths = append(ths, core+t*ncores)
						}
					}
					cl := coreInPkg
					if s.ClusterCores > 0 {
						cl = coreInPkg / s.ClusterCores
					}
					if s.ClusterOfCore != nil {
						cl = s.ClusterOfCore[coreInPkg]
					}
					coreFile := coreInPkg
					if s.CoreIDPerDie {
						coreFile = coreInDie
					}
					for _, id := range ths {
						m.CPUs[id] = CPU{ID: id, Pkg: p, Die: d, Node: node, Core: coreInPkg, CoreFile: coreFile, Cluster: cl,
							Threads: ths, Online: !has(s.Offline, id), Isolated: has(s.Isolated, id), ECore: has(s.ECores, id)}
					}
					core++
					coreInPkg++
					coreInDie++
				}
			}
		}
	}
	// online thread siblings: the kernel lists only online siblings
	for i := range m.CPUs {
		var on []int
		for _, t := range m.CPUs[i].Threads {
			if m.CPUs[t].Online {
				on = append(on, t)
			}
		}
		m.CPUs[i].Threads = on
	}
	// caches
	if !s.NoCaches {
		group := func(key func(c *CPU) int) map[int][]int {
			g := map[int][]int{}
			for i := range m.CPUs {
				if m.CPUs[i].Online {
					g[key(&m.CPUs[i])] = append(g[key(&m.CPUs[i])], i)
				}
			}
			return g
		}
		globalCore := func(c *CPU) int { return c.Pkg*10000 + c.Core }
		coreG := group(globalCore)
		l2key := globalCore
		if s.L2PerCluster && (s.ClusterCores > 0 || s.ClusterOfCore != nil) {
			l2key = func(c *CPU) int { return c.Pkg*10000 + c.Cluster }
		}
		l2G := group(l2key)
		var l3key func(c *CPU) int
		switch s.L3 {
		case "", "die":
			l3key = func(c *CPU) int { return c.Pkg*100 + c.Die }
		case "package":
			l3key = func(c *CPU) int { return c.Pkg }
		case "node":
			l3key = func(c *CPU) int { return c.Node }
		}
		var l3G map[int][]int
		if l3key != nil {
			l3G = group(l3key)
		}
		rank := func(g map[int][]int) map[int]int {
			ks := make([]int, 0, len(g))
			for k := range g {
				ks = append(ks, k)
			}
			sort.Ints(ks)
			r := map[int]int{}
			for i, k := range ks {
				r[k] = i
			}
			return r
		}
		coreR, l2R := rank(coreG), rank(l2G)
		var l3R map[int]int
		if l3G != nil {
			l3R = rank(l3G)
		}
		for i := range m.CPUs {
			c := &m.CPUs[i]
			if !c.Online {
				continue
			}
			ck := globalCore(c)
			c.Caches = append(c.Caches,
				Cache{ID: coreR[ck], Level: 1, Type: "Data", SizeK: 32, Shared: coreG[ck]},
				Cache{ID: coreR[ck], Level: 1, Type: "Instruction", SizeK: 32, Shared: coreG[ck]},
				Cache{ID: l2R[l2key(c)], Level: 2, Type: "Unified", SizeK: 1024, Shared: l2G[l2key(c)]})
			if l3G != nil {
				c.Caches = append(c.Caches, Cache{ID: l3R[l3key(c)], Level: 3, Type: "Unified", SizeK: 16384, Shared: l3G[l3key(c)]})
			}
		}
	}
	// nodes
	total := nnodes + len(s.Extras)
	for n := 0; n < nnodes; n++ {
		nd := Node{ID: n, Pkg: n / (s.Dies * s.NodesPerDie), Die: (n / s.NodesPerDie) % s.Dies, MemKB: s.DefaultMemKB, Normal: true}
		if v, ok := s.NodeMemKB[n]; ok {
			nd.MemKB = v
		}
		if nd.MemKB == 0 || has(s.MovableNodes, n) {
			nd.Normal = false
		}
		for i := range m.CPUs {
			if m.CPUs[i].Node == n && m.CPUs[i].Online {
				nd.CPUs = append(nd.CPUs, i)
			}
		}
		m.Nodes = append(m.Nodes, nd)
	}
	for i, e := range s.Extras {
		m.Nodes = append(m.Nodes, Node{ID: nnodes + i, Pkg: -1, Die: -1, MemKB: e.MemKB, Normal: !e.Movable && e.MemKB > 0, Extra: true, CloseTo: e.CloseTo})
	}
	for i := range m.Nodes {
		a := &m.Nodes[i]
		a.Distance = make([]int, total)
		for j := range m.Nodes {
			b := &m.Nodes[j]
			d := 0
			switch {
			case i == j:
				d = 10
			case a.Extra && b.Extra:
				d = 28
			case a.Extra:
				d = 28
				if has(a.CloseTo, b.ID) {
					d = 17
				}
			case b.Extra:
				d = 28
				if has(b.CloseTo, a.ID) {
					d = 17
				}
			case a.Pkg != b.Pkg:
				d = 21
			case a.Die != b.Die:
				d = 14
			default:
				d = 12
			}
			a.Distance[j] = d
		}
	}
	return m
}

// ListString renders a sorted int list in kernel cpulist syntax.
func ListString(l []int) string {
	l = append([]int{}, l...)
	sort.Ints(l)
	var parts []string
	for i := 0; i < len(l); {
		j := i
		for j+1 < len(l) && l[j+1] == l[j]+1 {
			j++
		}
		if j == i {
			parts = append(parts, strconv.Itoa(l[i]))
		} else {
			parts = append(parts, fmt.Sprintf("%d-%d", l[i], l[j]))
		}
		i = j + 1
	}
	return strings.Join(parts, ",")
}

// OnlineCPUs returns the ids of online CPUs.
func (m *Model) OnlineCPUs() []int {
	var l []int
	for _, c := range m.CPUs {
		if c.Online {
			l = append(l, c.ID)
		}
	}
	return l
}

// IsolatedCPUs returns the ids of isolated CPUs.
func (m *Model) IsolatedCPUs() []int {
	var l []int
	for _, c := range m.CPUs {
		if c.Isolated {
			l = append(l, c.ID)
		}
	}
	return l
}

func wr(path, content string) {
	if err := os.MkdirAll(filepath.Dir(path), 0o755); err != nil {
		panic(err)
	}
	if err := os.WriteFile(path, []byte(content+"\n"), 0o644); err != nil {
		panic(err)
	}
}

// Write creates <root>/sys/... for the model. root is a host root (opt.HostRoot); sysfs is at root/sys.
func (m *Model) Write(root string) {
	s := m.Spec
	sys := filepath.Join(root, "sys")
	for i, d := range s.Devices {
		pci := filepath.Join(sys, "devices", "pci0000:00", fmt.Sprintf("0000:00:%02x.0", i+1))
		dev := filepath.Join(pci, "verifdev", fmt.Sprintf("vdev%d", i))
		os.MkdirAll(dev, 0o755)
		wr(filepath.Join(pci, "numa_node"), strconv.Itoa(d.Node))
		wr(filepath.Join(pci, "local_cpulist"), d.CPUs)
		wr(filepath.Join(dev, "dev"), fmt.Sprintf("%d:%d", d.Major, d.Minor))
		char := filepath.Join(sys, "dev", "char")
		os.MkdirAll(char, 0o755)
		os.Symlink(filepath.Join("..", "..", "devices", "pci0000:00", fmt.Sprintf("0000:00:%02x.0", i+1), "verifdev", fmt.Sprintf("vdev%d", i)), filepath.Join(char, fmt.Sprintf("%d:%d", d.Major, d.Minor)))
	}
	cpuDir := filepath.Join(sys, "devices/system/cpu")
	var all []int
	for _, c := range m.CPUs {
		all = append(all, c.ID)
	}
	wr(filepath.Join(cpuDir, "possible"), ListString(all))
	wr(filepath.Join(cpuDir, "present"), ListString(all))
	wr(filepath.Join(cpuDir, "online"), ListString(m.OnlineCPUs()))
	wr(filepath.Join(cpuDir, "isolated"), ListString(m.IsolatedCPUs()))
	if s.ECores != nil {
		var p, e []int
		for _, c := range m.CPUs {
			if !c.Online {
				continue
			}
			if c.ECore {
				e = append(e, c.ID)
			} else {
				p = append(p, c.ID)
			}
		}
		wr(filepath.Join(sys, "devices/cpu_core/cpus"), ListString(p))
		wr(filepath.Join(sys, "devices/cpu_atom/cpus"), ListString(e))
	}
	for _, c := range m.CPUs {
		d := filepath.Join(cpuDir, fmt.Sprintf("cpu%d", c.ID))
		if err := os.MkdirAll(filepath.Join(d, fmt.Sprintf("node%d", c.Node)), 0o755); err != nil {
			panic(err)
		}
		if !c.Online {
			continue
		}
		t := filepath.Join(d, "topology")
		wr(filepath.Join(t, "physical_package_id"), strconv.Itoa(c.Pkg))
		if !s.NoDieID {
			wr(filepath.Join(t, "die_id"), strconv.Itoa(c.Die))
		}
		wr(filepath.Join(t, "cluster_id"), strconv.Itoa(c.Cluster))
		wr(filepath.Join(t, "core_id"), strconv.Itoa(c.CoreFile))
		wr(filepath.Join(t, "core_cpus_list"), ListString(c.Threads))
		wr(filepath.Join(t, "thread_siblings_list"), ListString(c.Threads))
		for i, ch := range c.Caches {
			cd := filepath.Join(d, "cache", fmt.Sprintf("index%d", i))
			wr(filepath.Join(cd, "id"), strconv.Itoa(ch.ID))
			wr(filepath.Join(cd, "level"), strconv.Itoa(ch.Level))
			wr(filepath.Join(cd, "type"), ch.Type)
			wr(filepath.Join(cd, "size"), fmt.Sprintf("%dK", ch.SizeK))
			wr(filepath.Join(cd, "shared_cpu_list"), ListString(ch.Shared))
		}
		if v, ok := s.BaseFreq[c.ID]; ok {
			wr(filepath.Join(d, "cpufreq/base_frequency"), strconv.FormatUint(v, 10))
		}
		if v, ok := s.MinFreq[c.ID]; ok {
			wr(filepath.Join(d, "cpufreq/cpuinfo_min_freq"), strconv.FormatUint(v, 10))
		}
		if v, ok := s.MaxFreq[c.ID]; ok {
			wr(filepath.Join(d, "cpufreq/cpuinfo_max_freq"), strconv.FormatUint(v, 10))
		}
		if v, ok := s.EPP[c.ID]; ok {
			wr(filepath.Join(d, "cpufreq/energy_performance_preference"), v)
		}
	}
	nodeDir := filepath.Join(sys, "devices/system/node")
	var online, hasMem, hasNormal, hasCPU []int
	for _, n := range m.Nodes {
		d := filepath.Join(nodeDir, fmt.Sprintf("node%d", n.ID))
		wr(filepath.Join(d, "cpulist"), ListString(n.CPUs))
		var ds []string
		for _, x := range n.Distance {
			ds = append(ds, strconv.Itoa(x))
		}
		wr(filepath.Join(d, "distance"), strings.Join(ds, " "))
		free := n.MemKB / 2
		wr(filepath.Join(d, "meminfo"), fmt.Sprintf("Node %d MemTotal:       %d kB\nNode %d MemFree:        %d kB\nNode %d MemUsed:        %d kB",
			n.ID, n.MemKB, n.ID, free, n.ID, n.MemKB-free))
		online = append(online, n.ID)
		if n.MemKB > 0 {
			hasMem = append(hasMem, n.ID)
		}
		if n.Normal {
			hasNormal = append(hasNormal, n.ID)
		}
		if len(n.CPUs) > 0 {
			hasCPU = append(hasCPU, n.ID)
		}
	}
	wr(filepath.Join(nodeDir, "online"), ListString(online))
	wr(filepath.Join(nodeDir, "possible"), ListString(online))
	wr(filepath.Join(nodeDir, "has_memory"), ListString(hasMem))
	wr(filepath.Join(nodeDir, "has_normal_memory"), ListString(hasNormal))
	wr(filepath.Join(nodeDir, "has_cpu"), ListString(hasCPU))
}
