//go:build verif

// Package vos stands in for package os in the files vgen redirects (the cache
// persistence code). Every call passes through to the real os package; in
// addition WriteFile, Rename, MkdirAll, RemoveAll, OpenFile and Create report
// their primitive steps to a hook so that a harness can
//   - take the directory content at every step boundary (crash points),
//   - know the bytes of every write (torn-write enumeration),
//   - make one chosen primitive step fail (fault injection).
package vos

import (
	"io/fs"
	"os"
	"syscall"
)

type (
	FileMode = os.FileMode
	File     = os.File
	FileInfo = os.FileInfo
	DirEntry = os.DirEntry
)

const (
	ModeType      = os.ModeType
	ModeSymlink   = os.ModeSymlink
	ModePerm      = os.ModePerm
	ModeDir       = os.ModeDir
	ModeNamedPipe = os.ModeNamedPipe
	ModeSocket    = os.ModeSocket
	ModeDevice    = os.ModeDevice
	O_RDONLY      = os.O_RDONLY
	O_WRONLY      = os.O_WRONLY
	O_RDWR        = os.O_RDWR
	O_APPEND      = os.O_APPEND
	O_CREATE      = os.O_CREATE
	O_EXCL        = os.O_EXCL
	O_SYNC        = os.O_SYNC
	O_TRUNC       = os.O_TRUNC
	PathSeparator = os.PathSeparator
)

var (
	ErrNotExist   = os.ErrNotExist
	ErrExist      = os.ErrExist
	ErrPermission = os.ErrPermission
	ErrInvalid    = os.ErrInvalid
	Stdout        = os.Stdout
	Stderr        = os.Stderr
	Args          = os.Args
)

// Op is one primitive filesystem step.
type Op struct {
	Kind string // create, write, close, rename, mkdirall, removeall
	Path string
	To   string // rename target
	Data []byte // bytes of a write
	Perm os.FileMode
}

var (
	// Before/After are called around every primitive step (nil = pass through).
	Before func(op *Op)
	After  func(op *Op)
	// FailAt: the n-th primitive step (counted from 1 since the last Reset) fails with EIO; 0 = never.
	FailAt int
	// FailShort: for a failing write, this many bytes are written before the error.
	FailShort int
	count     int
)

// Reset clears the step counter and fault plan.
func Reset() { count, FailAt, FailShort = 0, 0, 0 }

// Steps returns the number of primitive steps since the last Reset.
func Steps() int { return count }

func step(op *Op, do func() error) error {
	count++
	if Before != nil {
		Before(op)
	}
	var err error
	if FailAt != 0 && count == FailAt {
		if op.Kind == "write" && FailShort > 0 && FailShort < len(op.Data) {
			f, ferr := os.OpenFile(op.Path, os.O_WRONLY|os.O_APPEND, 0)
			if ferr == nil {
				f.Write(op.Data[:FailShort])
				f.Close()
			}
		}
		err = &fs.PathError{Op: op.Kind, Path: op.Path, Err: syscall.EIO}
	} else {
		err = do()
	}
	if After != nil {
		After(op)
	}
	return err
}

// WriteFile is os.WriteFile decomposed into create(truncate) + write + close.
func WriteFile(name string, data []byte, perm os.FileMode) error {
	var f *os.File
	if err := step(&Op{Kind: "create", Path: name, Perm: perm}, func() error {
		var err error
		f, err = os.OpenFile(name, os.O_WRONLY|os.O_CREATE|os.O_TRUNC, perm)
		return err
	}); err != nil {
		return err
	}
	werr := step(&Op{Kind: "write", Path: name, Data: data}, func() error {
		_, err := f.Write(data)
		return err
	})
	cerr := step(&Op{Kind: "close", Path: name}, func() error { return f.Close() })
	if f != nil && (FailAt != 0 && count >= FailAt) {
		f.Close()
	}
	if werr != nil {
		return werr
	}
	return cerr
}

func Rename(oldpath, newpath string) error {
	return step(&Op{Kind: "rename", Path: oldpath, To: newpath}, func() error { return os.Rename(oldpath, newpath) })
}

func MkdirAll(path string, perm os.FileMode) error {
	return step(&Op{Kind: "mkdirall", Path: path, Perm: perm}, func() error { return os.MkdirAll(path, perm) })
}

func RemoveAll(path string) error {
	return step(&Op{Kind: "removeall", Path: path}, func() error { return os.RemoveAll(path) })
}

func Remove(path string) error {
	return step(&Op{Kind: "remove", Path: path}, func() error { return os.Remove(path) })
}

func OpenFile(name string, flag int, perm os.FileMode) (*os.File, error) {
	if flag&(os.O_WRONLY|os.O_RDWR|os.O_CREATE|os.O_TRUNC) == 0 {
		return os.OpenFile(name, flag, perm)
	}
	var f *os.File
	err := step(&Op{Kind: "open-for-write", Path: name, Perm: perm}, func() error {
		var err error
		f, err = os.OpenFile(name, flag, perm)
		return err
	})
	return f, err
}

func Create(name string) (*os.File, error) {
	return OpenFile(name, os.O_RDWR|os.O_CREATE|os.O_TRUNC, 0666)
}

// pass-through
func Lstat(name string) (os.FileInfo, error)        { return os.Lstat(name) }
func Stat(name string) (os.FileInfo, error)         { return os.Stat(name) }
func ReadFile(name string) ([]byte, error)          { return os.ReadFile(name) }
func ReadDir(name string) ([]os.DirEntry, error)    { return os.ReadDir(name) }
func Open(name string) (*os.File, error)            { return os.Open(name) }
func IsNotExist(err error) bool                     { return os.IsNotExist(err) }
func IsExist(err error) bool                        { return os.IsExist(err) }
func IsPermission(err error) bool                   { return os.IsPermission(err) }
func Mkdir(name string, perm os.FileMode) error     { return os.Mkdir(name, perm) }
func Chmod(name string, mode os.FileMode) error     { return os.Chmod(name, mode) }
func Symlink(oldname, newname string) error         { return os.Symlink(oldname, newname) }
func Readlink(name string) (string, error)          { return os.Readlink(name) }
func Getenv(key string) string                      { return os.Getenv(key) }
func TempDir() string                               { return os.TempDir() }
func Getpid() int                                   { return os.Getpid() }
func Getuid() int                                   { return os.Getuid() }
func Exit(code int)                                 { os.Exit(code) }
func Hostname() (string, error)                     { return os.Hostname() }
func MkdirTemp(dir, pattern string) (string, error) { return os.MkdirTemp(dir, pattern) }
func Truncate(name string, size int64) error        { return os.Truncate(name, size) }
func Link(oldname, newname string) error            { return os.Link(oldname, newname) }
func SameFile(a, b os.FileInfo) bool                { return os.SameFile(a, b) }
