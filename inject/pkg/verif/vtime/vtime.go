//go:build verif

// Package vtime stands in for package time in the files vgen redirects. Outside a harness it is the real thing; a
// harness that calls Control() owns the timers: After returns a channel that only the harness fires.
package vtime

import (
	"sync"
	"time"
)

type (
	Duration = time.Duration
	Time     = time.Time
	Timer    = time.Timer
	Ticker   = time.Ticker
)

const (
	Nanosecond  = time.Nanosecond
	Microsecond = time.Microsecond
	Millisecond = time.Millisecond
	Second      = time.Second
	Minute      = time.Minute
	Hour        = time.Hour
)

var (
	mu         sync.Mutex
	controlled bool
	armed      []chan time.Time
)

// Control hands the timers to the harness (true) or back to the real clock (false).
func Control(on bool) {
	mu.Lock()
	controlled, armed = on, nil
	mu.Unlock()
}

// Armed returns the number of timers created by After that have not been fired yet.
func Armed() int {
	mu.Lock()
	defer mu.Unlock()
	return len(armed)
}

// Fire lets the oldest armed timer expire. The send blocks until somebody receives it.
func Fire() bool {
	mu.Lock()
	if len(armed) == 0 {
		mu.Unlock()
		return false
	}
	ch := armed[0]
	armed = armed[1:]
	mu.Unlock()
	ch <- time.Now()
	return true
}

func After(d Duration) <-chan Time {
	mu.Lock()
	defer mu.Unlock()
	if !controlled {
		return time.After(d)
	}
	ch := make(chan time.Time)
	armed = append(armed, ch)
	return ch
}

func Now() Time                                { return time.Now() }
func Since(t Time) Duration                    { return time.Since(t) }
func Sleep(d Duration)                         { time.Sleep(d) }
func NewTimer(d Duration) *Timer               { return time.NewTimer(d) }
func NewTicker(d Duration) *Ticker             { return time.NewTicker(d) }
func AfterFunc(d Duration, f func()) *Timer    { return time.AfterFunc(d, f) }
func Tick(d Duration) <-chan Time              { return time.Tick(d) }
func ParseDuration(s string) (Duration, error) { return time.ParseDuration(s) }
