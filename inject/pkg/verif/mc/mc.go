//go:build verif

// Package mc is the shared model-checking library of the verification
// harnesses: worker plumbing (sharding, results, replay confirmation) and a
// breadth-first explicit-state explorer whose transition function is the real
// implementation (successor = replay the shortest path on a fresh instance
// plus one event).
package mc

import (
	"crypto/sha256"
	"encoding/hex"
	"encoding/json"
	"fmt"
	"os"
	"runtime/debug"
	"sort"
	"strconv"
	"strings"
	"time"
)

// Violation is one property violation with everything needed to replay it.
type Violation struct {
	Property  string         `json:"property"`
	Oracle    string         `json:"oracle"`
	Signature string         `json:"signature"`
	Scenario  string         `json:"scenario"`
	Trace     []string       `json:"trace"`
	Detail    string         `json:"detail"`
	Extra     map[string]any `json:"extra,omitempty"`
	Confirmed int            `json:"confirmed_replays"`
}

// Result is what one worker process reports to the orchestrator.
type Result struct {
	Property    string           `json:"property"`
	Shard       int              `json:"shard"`
	NShards     int              `json:"nshards"`
	Tier        string           `json:"tier"`
	Scenarios   int              `json:"scenarios"`
	States      int64            `json:"states"`
	Transitions int64            `json:"transitions"`
	Evaluations int64            `json:"evaluations"`
	Nontrivial  int64            `json:"distinct_nontrivial"`
	Outcomes    int64            `json:"distinct_outcomes"`
	Exhaustive  bool             `json:"exhaustive"`
	Caps        []string         `json:"caps,omitempty"`
	Violations  []Violation      `json:"violations,omitempty"`
	Nondet      []string         `json:"nondeterminism,omitempty"`
	Samples     []any            `json:"samples,omitempty"`
	Notes       []string         `json:"notes,omitempty"`
	Counters    map[string]int64 `json:"counters,omitempty"`
	WallS       float64          `json:"wall_s"`
	Done        bool             `json:"done"`
}

// TB is the subset of testing.TB the worker needs.
type TB interface {
	Fatalf(format string, args ...any)
	Logf(format string, args ...any)
}

// Worker carries per-process exploration state.
type Worker struct {
	T        TB
	Res      Result
	start    time.Time
	deadline time.Time
	out      string
	seen     map[string]bool // violation signatures
	// Replayer re-executes (scenario, trace) on a fresh instance and returns the violations observed.
	Replayer func(scenario string, trace []string) []Violation
	Seed     int64
	ReplayV  *Violation // set when VERIF_REPLAY names a replay file
	maxViol  int
}

func envInt(k string, def int) int {
	if v := os.Getenv(k); v != "" {
		if n, err := strconv.Atoi(v); err == nil {
			return n
		}
	}
	return def
}

// NewWorker reads the worker environment.
func NewWorker(t TB, property string) *Worker {
	w := &Worker{T: t, start: time.Now(), seen: map[string]bool{}, maxViol: 40}
	w.Res.Property = property
	w.Res.Shard = envInt("VERIF_SHARD", 0)
	w.Res.NShards = envInt("VERIF_NSHARDS", 1)
	w.Res.Tier = os.Getenv("VERIF_TIER")
	if w.Res.Tier == "" {
		w.Res.Tier = "quick"
	}
	w.Res.Exhaustive = true
	w.Res.Counters = map[string]int64{}
	w.out = os.Getenv("VERIF_OUT")
	w.Seed = int64(envInt("VERIF_SEED", 0))
	if d := envInt("VERIF_DEADLINE_S", 0); d > 0 {
		w.deadline = w.start.Add(time.Duration(d) * time.Second)
	}
	if p := os.Getenv("VERIF_REPLAY"); p != "" {
		data, err := os.ReadFile(p)
		if err != nil {
			t.Fatalf("replay file: %v", err)
		}
		v := &Violation{}
		if err := json.Unmarshal(data, v); err != nil {
			t.Fatalf("replay file: %v", err)
		}
		w.ReplayV = v
	}
	return w
}

// Thorough reports whether the thorough tier is selected.
func (w *Worker) Thorough() bool { return w.Res.Tier == "thorough" }

// Mine reports whether work item i belongs to this shard.
func (w *Worker) Mine(i int) bool { return i%w.Res.NShards == w.Res.Shard }

// Expired reports whether the worker's internal deadline has passed.
func (w *Worker) Expired() bool {
	return !w.deadline.IsZero() && time.Now().After(w.deadline)
}

// Cap records that an internal cap ended part of the exploration early.
func (w *Worker) Cap(format string, args ...any) {
	w.Res.Exhaustive = false
	s := fmt.Sprintf(format, args...)
	for _, c := range w.Res.Caps {
		if c == s {
			return
		}
	}
	w.Res.Caps = append(w.Res.Caps, s)
}

// Note adds a free-text note to the result.
func (w *Worker) Note(format string, args ...any) {
	if len(w.Res.Notes) < 50 {
		w.Res.Notes = append(w.Res.Notes, fmt.Sprintf(format, args...))
	}
}

// Sample records an example case (a few per worker are kept).
func (w *Worker) Sample(s any) {
	if len(w.Res.Samples) < 4 {
		w.Res.Samples = append(w.Res.Samples, s)
	}
}

// Count bumps a named counter.
func (w *Worker) Count(name string, n int64) { w.Res.Counters[name] += n }

// TooMany reports whether enough distinct violations were collected to stop.
func (w *Worker) TooMany() bool { return len(w.Res.Violations) >= w.maxViol }

// Report records a violation (first one per signature wins: with
// breadth-first exploration that is a shortest one). It is confirmed by
// replaying it 5 times; if a replay does not reproduce it, it is recorded as
// nondeterminism (a broken check), not as a violation.
func (w *Worker) Report(v Violation) {
	if v.Signature == "" {
		v.Signature = v.Oracle
	}
	key := v.Property + "|" + v.Signature
	if w.seen[key] {
		return
	}
	w.seen[key] = true
	if w.Replayer != nil {
		ok := 0
		for i := 0; i < 5; i++ {
			for _, r := range w.Replayer(v.Scenario, v.Trace) {
				if r.Property == v.Property && r.Signature == v.Signature {
					ok++
					break
				}
			}
		}
		v.Confirmed = ok
		if ok != 5 {
			w.Res.Nondet = append(w.Res.Nondet, fmt.Sprintf("%s %s scenario=%s trace=%v reproduced %d/5: %s",
				v.Property, v.Signature, v.Scenario, v.Trace, ok, v.Detail))
			w.flush(false)
			return
		}
	} else {
		v.Confirmed = -1
	}
	w.Res.Violations = append(w.Res.Violations, v)
	w.flush(false)
}

func (w *Worker) flush(done bool) {
	w.Res.Done = done
	w.Res.WallS = time.Since(w.start).Seconds()
	if w.out == "" {
		return
	}
	data, _ := json.Marshal(&w.Res)
	tmp := w.out + ".tmp"
	if err := os.WriteFile(tmp, data, 0o644); err == nil {
		os.Rename(tmp, w.out)
	}
}

// Finish writes the final result. It must be deferred directly (defer w.Finish()): if the test is panicking the
// result is written as unfinished, so that the orchestrator reports a broken worker instead of a quiet pass.
func (w *Worker) Finish() {
	if r := recover(); r != nil {
		w.Res.Notes = append(w.Res.Notes, fmt.Sprintf("worker panicked: %v", r))
		w.flush(false)
		panic(r)
	}
	w.flush(true)
	if w.out == "" {
		data, _ := json.MarshalIndent(&w.Res, "", " ")
		w.T.Logf("%s", data)
	}
}

// Hash returns a short canonical hash of s.
func Hash(s string) string {
	h := sha256.Sum256([]byte(s))
	return hex.EncodeToString(h[:12])
}

// SortedKeys returns the sorted keys of a string-keyed map.
func SortedKeys[V any](m map[string]V) []string {
	ks := make([]string, 0, len(m))
	for k := range m {
		ks = append(ks, k)
	}
	sort.Strings(ks)
	return ks
}

// Guard runs f and converts a panic into an error string with a stack digest.
func Guard(f func()) (panicked bool, msg string, where string) {
	defer func() {
		if r := recover(); r != nil {
			panicked = true
			msg = fmt.Sprint(r)
			where = PanicSite(string(debug.Stack()))
		}
	}()
	f()
	return
}

// PanicSite extracts the first first-party, non-harness function below the panic from a stack trace.
func PanicSite(stack string) string {
	lines := strings.Split(stack, "\n")
	after := false
	for _, l := range lines {
		if strings.HasPrefix(l, "panic(") {
			after = true
			continue
		}
		if !after || strings.HasPrefix(l, "\t") || strings.HasPrefix(l, " ") {
			continue
		}
		if !strings.Contains(l, "nri-plugins/") || strings.Contains(l, "/pkg/verif/") || strings.Contains(l, "verif") && strings.Contains(l, "Guard") {
			continue
		}
		if i := strings.LastIndex(l, "("); i > 0 {
			l = l[:i]
		}
		l = strings.TrimPrefix(l, "github.com/containers/nri-plugins/")
		return l
	}
	return "unknown"
}

// ---------------------------------------------------------------------------
// explicit-state breadth-first exploration

// Step is the outcome of executing one trace on a fresh instance.
type Step struct {
	Key        string      // canonical state after the whole trace
	ParentKey  string      // canonical state after trace[:len-1] (for the determinism check); "" to skip
	Enabled    []string    // events enabled in the reached state
	Violations []Violation // violations observed while executing the last event (or the suffix oracle)
	Nontrivial bool        // state is non-trivial by the check's rule
	Outcome    string      // outcome class of the last event (for the distinct-outcome count)
	Stop       bool        // do not extend this state
}

// Explorer explores all event sequences up to Depth over Run.
type Explorer struct {
	W        *Worker
	Scenario string
	Depth    int
	Run      func(trace []string) Step
	// MaxStates caps the number of distinct states (0 = none).
	MaxStates int
}

type node struct {
	trace []string
	key   string
	en    []string
}

// Explore runs the search; it returns (states, transitions, depth fully covered).
func (e *Explorer) Explore() (int, int, int) {
	w := e.W
	seen := map[string]bool{}
	outcomes := map[string]bool{}
	root := e.Run(nil)
	w.Res.Evaluations++
	for _, v := range root.Violations {
		w.Report(v)
	}
	seen[root.Key] = true
	states, trans := 1, 0
	frontier := []node{{nil, root.Key, root.Enabled}}
	covered := 0
	var sample []string
	for depth := 0; depth < e.Depth && len(frontier) > 0; depth++ {
		var next []node
		for _, n := range frontier {
			for _, ev := range n.en {
				if w.Expired() {
					w.Cap("scenario %s: deadline reached at depth %d (fully covered depth %d)", e.Scenario, depth+1, covered)
					goto out
				}
				if w.TooMany() {
					w.Cap("scenario %s: stopped after %d distinct violations", e.Scenario, len(w.Res.Violations))
					goto out
				}
				tr := append(append([]string{}, n.trace...), ev)
				st := e.Run(tr)
				trans++
				w.Res.Evaluations++
				if st.ParentKey != "" && st.ParentKey != n.key {
					w.Res.Nondet = append(w.Res.Nondet, fmt.Sprintf("scenario %s: replay of %v reached state %s, recorded %s", e.Scenario, n.trace, st.ParentKey, n.key))
					w.flush(false)
					goto out
				}
				for _, v := range st.Violations {
					w.Report(v)
				}
				if st.Outcome != "" {
					outcomes[st.Outcome] = true
				}
				if seen[st.Key] {
					continue
				}
				seen[st.Key] = true
				states++
				if st.Nontrivial {
					w.Res.Nontrivial++
				}
				sample = tr
				if e.MaxStates > 0 && states >= e.MaxStates {
					w.Cap("scenario %s: state cap %d reached at depth %d", e.Scenario, e.MaxStates, depth+1)
					goto out
				}
				if !st.Stop {
					next = append(next, node{tr, st.Key, st.Enabled})
				}
			}
		}
		covered = depth + 1
		frontier = next
	}
out:
	w.Res.States += int64(states)
	w.Res.Transitions += int64(trans)
	w.Res.Outcomes += int64(len(outcomes))
	w.Res.Scenarios++
	if sample != nil {
		w.Sample(map[string]any{"scenario": e.Scenario, "trace": sample})
	}
	return states, trans, covered
}
