//go:build verif

// Package vsync stands in for package sync in the files vgen redirects. Its
// RWMutex is a real sync.RWMutex outside exploration and a scheduler-visible
// lock under the controlled scheduler; everything else is the real thing.
package vsync

import (
	"fmt"
	"sync"
	"time"

	"github.com/containers/nri-plugins/pkg/verif/sched"
)

type (
	WaitGroup = sync.WaitGroup
	Once      = sync.Once
	Cond      = sync.Cond
	Map       = sync.Map
	Pool      = sync.Pool
	Locker    = sync.Locker
)

// RWMutex is scheduler-aware.
type RWMutex struct {
	real    sync.RWMutex
	writer  *sched.T
	readers map[*sched.T]int
}

// Patience, when set by a harness that runs handlers one after another (no scheduler), bounds the wait for the lock: in
// such a harness nobody else can hold it, so a lock that stays taken was leaked by an earlier request that returned
// without releasing it. The wait then ends in a panic (reported by the harness) instead of hanging the worker.
var Patience time.Duration

func (m *RWMutex) Lock() {
	t := sched.Current()
	if t == nil {
		if Patience > 0 {
			deadline := time.Now().Add(Patience)
			for !m.real.TryLock() {
				if time.Now().After(deadline) {
					panic(fmt.Sprintf("vsync: the lock is still held after %v although no request is in progress: an earlier request returned without releasing it", Patience))
				}
				time.Sleep(200 * time.Microsecond)
			}
			return
		}
		m.real.Lock()
		return
	}
	sched.Point("lock")
	sched.Block("lock-wait", func() bool { return m.writer != nil || len(m.readers) > 0 })
	m.writer = t
	t.Held[m]++
}

func (m *RWMutex) Unlock() {
	t := sched.Current()
	if t == nil {
		m.real.Unlock()
		return
	}
	if m.writer != t {
		panic("vsync: Unlock of a lock not held by the calling thread")
	}
	m.writer = nil
	delete(t.Held, m)
	sched.Point("unlock")
}

func (m *RWMutex) RLock() {
	t := sched.Current()
	if t == nil {
		m.real.RLock()
		return
	}
	sched.Point("rlock")
	sched.Block("rlock-wait", func() bool { return m.writer != nil })
	if m.readers == nil {
		m.readers = map[*sched.T]int{}
	}
	m.readers[t]++
	t.Held[m]++
}

func (m *RWMutex) RUnlock() {
	t := sched.Current()
	if t == nil {
		m.real.RUnlock()
		return
	}
	m.readers[t]--
	if m.readers[t] <= 0 {
		delete(m.readers, t)
	}
	t.Held[m]--
	if t.Held[m] <= 0 {
		delete(t.Held, m)
	}
	sched.Point("runlock")
}

func (m *RWMutex) TryLock() bool {
	if sched.Current() == nil {
		return m.real.TryLock()
	}
	if m.writer != nil || len(m.readers) > 0 {
		return false
	}
	m.Lock()
	return true
}

func (m *RWMutex) RLocker() sync.Locker { return (*rlocker)(m) }

type rlocker RWMutex

func (r *rlocker) Lock()   { (*RWMutex)(r).RLock() }
func (r *rlocker) Unlock() { (*RWMutex)(r).RUnlock() }

// HeldBy reports whether the calling logical thread holds m (for writing or reading).
func HeldBy(m *RWMutex, t *sched.T) bool {
	if t == nil {
		return false
	}
	return t.Held[m] > 0
}

func OnceFunc(f func()) func()         { return sync.OnceFunc(f) }
func NewCond(l sync.Locker) *sync.Cond { return sync.NewCond(l) }

// Mutex is scheduler-aware (a real sync.Mutex outside exploration).
type Mutex struct {
	real  sync.Mutex
	owner *sched.T
}

func (m *Mutex) Lock() {
	t := sched.Current()
	if t == nil {
		m.real.Lock()
		return
	}
	sched.Point("mutex-lock")
	sched.Block("mutex-wait", func() bool { return m.owner != nil })
	m.owner = t
	t.Held[m]++
}

func (m *Mutex) Unlock() {
	t := sched.Current()
	if t == nil {
		m.real.Unlock()
		return
	}
	m.owner = nil
	delete(t.Held, m)
	sched.Point("mutex-unlock")
}

func (m *Mutex) TryLock() bool {
	if sched.Current() == nil {
		return m.real.TryLock()
	}
	if m.owner != nil {
		return false
	}
	m.Lock()
	return true
}
