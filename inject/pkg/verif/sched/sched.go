//go:build verif

// Package sched is a controlled cooperative scheduler for exhaustive
// exploration of thread interleavings. Logical threads are goroutines of which
// exactly one runs at a time; control changes hands only at scheduling points
// (lock operations, goroutine creation, channel operations, explicit Point
// calls of access proxies). An execution is identified by its list of choices;
// Explore enumerates all executions whose number of preemptions does not
// exceed a bound (iterative context bounding).
//
// When no scheduler is active every operation passes through to its ordinary
// Go meaning, so rewritten code behaves normally outside the harness.
package sched

import (
	"fmt"
	"reflect"
	"runtime/debug"
	"strings"
)

// T is a logical thread.
type T struct {
	ID       int
	Name     string
	wake     chan struct{}
	fn       func()
	started  bool
	finished bool
	blocked  func() bool // non-nil while the thread waits for a condition; returns true while still blocked
	Held     map[any]int // locks held (by identity), maintained by vsync
}

// PointRec records one scheduling decision.
type PointRec struct {
	Label      string
	Running    int   // id of the thread that reached the point (-1: start)
	Enabled    []int // canonical order: running thread first if enabled, then ascending ids
	Chosen     int   // index into Enabled
	RunEnabled bool  // the running thread could have continued
}

// Scheduler runs one execution.
type Scheduler struct {
	threads  []*T
	cur      *T
	prefix   []int
	Points   []PointRec
	done     chan struct{}
	Deadlock bool
	Blocked  []string
	Panics   []string
	Diverged string
	Log      []string // harness observations in execution order
	chans    map[uintptr]*chanState
	closed   bool
}

type chanState struct{ closed bool }

var active *Scheduler

// Active returns the scheduler of the running execution (nil outside exploration).
func Active() *Scheduler { return active }

// Current returns the running logical thread (nil outside exploration).
func Current() *T {
	if active == nil {
		return nil
	}
	return active.cur
}

// New creates a scheduler that replays prefix and then always takes choice 0.
func New(prefix []int) *Scheduler {
	return &Scheduler{prefix: prefix, done: make(chan struct{}), chans: map[uintptr]*chanState{}}
}

// Thread registers a logical thread.
func (s *Scheduler) Thread(name string, fn func()) *T {
	t := &T{ID: len(s.threads), Name: name, wake: make(chan struct{}, 1), fn: fn, Held: map[any]int{}}
	s.threads = append(s.threads, t)
	return t
}

func (s *Scheduler) enabled() []*T {
	var out []*T
	if s.cur != nil && !s.cur.finished && (s.cur.blocked == nil || !s.cur.blocked()) {
		out = append(out, s.cur)
	}
	for _, t := range s.threads {
		if t == s.cur || t.finished {
			continue
		}
		if t.blocked != nil && t.blocked() {
			continue
		}
		out = append(out, t)
	}
	return out
}

func (s *Scheduler) start(t *T) {
	t.started = true
	go func() {
		<-t.wake
		func() {
			defer func() {
				if r := recover(); r != nil {
					s.Panics = append(s.Panics, fmt.Sprintf("thread %s: %v\n%s", t.Name, r, trimStack(string(debug.Stack()))))
				}
			}()
			t.fn()
		}()
		t.finished = true
		t.blocked = nil
		s.schedule("exit")
	}()
}

func trimStack(st string) string {
	lines := strings.Split(st, "\n")
	if len(lines) > 40 {
		lines = lines[:40]
	}
	return strings.Join(lines, "\n")
}

// schedule is called by the running thread at every scheduling point.
func (s *Scheduler) schedule(label string) {
	if s.closed {
		// the execution was abandoned (deadlock): park forever
		select {}
	}
	cur := s.cur
	en := s.enabled()
	if len(en) == 0 {
		for _, t := range s.threads {
			if !t.finished {
				s.Deadlock = true
				s.Blocked = append(s.Blocked, t.Name)
			}
		}
		s.closed = true
		close(s.done)
		if cur != nil && !cur.finished {
			select {} // the deadlocked goroutine is abandoned
		}
		return
	}
	choice := 0
	if n := len(s.Points); n < len(s.prefix) {
		choice = s.prefix[n]
		if choice >= len(en) {
			s.Diverged = fmt.Sprintf("point %d (%s): replayed choice %d but only %d threads enabled", n, label, choice, len(en))
			choice = 0
		}
	}
	rec := PointRec{Label: label, Running: -1, Chosen: choice}
	if cur != nil {
		rec.Running = cur.ID
		rec.RunEnabled = len(en) > 0 && en[0] == cur
	}
	for _, t := range en {
		rec.Enabled = append(rec.Enabled, t.ID)
	}
	s.Points = append(s.Points, rec)
	next := en[choice]
	if next == cur {
		return
	}
	s.cur = next
	if !next.started {
		s.start(next)
	}
	next.wake <- struct{}{}
	if cur != nil && !cur.finished {
		<-cur.wake
	}
}

// Run executes the registered threads to completion (or deadlock).
func (s *Scheduler) Run() {
	active = s
	defer func() { active = nil }()
	if len(s.threads) == 0 {
		return
	}
	s.cur = nil
	s.schedule("start")
	<-s.done
}

// Point is an explicit scheduling point.
func Point(label string) {
	if s := active; s != nil && s.cur != nil {
		s.schedule(label)
	}
}

// Block parks the running thread until cond() is false.
func Block(label string, cond func() bool) {
	s := active
	if s == nil || s.cur == nil {
		return
	}
	for cond() {
		t := s.cur
		t.blocked = cond
		s.schedule(label)
		t.blocked = nil
	}
}

// finish is called when the last thread exits.
func (s *Scheduler) allDone() bool {
	for _, t := range s.threads {
		if !t.finished {
			return false
		}
	}
	return true
}

// Observe appends a harness observation to the execution log.
func Observe(format string, args ...any) {
	if s := active; s != nil {
		s.Log = append(s.Log, fmt.Sprintf(format, args...))
	}
}

// ---------------------------------------------------------------------------
// goroutines and channels (targets of the vgen go/chan rewrite)

// Go starts fn as a new logical thread (or as a plain goroutine outside exploration).
func Go(fn func()) {
	s := active
	if s == nil || s.cur == nil {
		go fn()
		return
	}
	s.Thread(fmt.Sprintf("%s/go%d", s.cur.Name, len(s.threads)), fn)
	s.schedule("go")
}

func chanKey(ch any) uintptr { return reflect.ValueOf(ch).Pointer() }

// MakeChan registers a channel created by rewritten code.
func MakeChan[C any](ch C) C {
	if s := active; s != nil {
		s.chans[chanKey(ch)] = &chanState{}
	}
	return ch
}

func (s *Scheduler) state(ch any) *chanState {
	k := chanKey(ch)
	st, ok := s.chans[k]
	if !ok {
		st = &chanState{}
		s.chans[k] = st
	}
	return st
}

// Recv receives from ch; under exploration the thread blocks cooperatively until a value is buffered or ch is closed.
func Recv[T any](ch <-chan T) T {
	s := active
	if s == nil || s.cur == nil {
		return <-ch
	}
	var zero T
	if ch == nil {
		Block("recv-nil", func() bool { return true })
		return zero
	}
	s.schedule("recv")
	st := s.state(ch)
	var stash *T
	ready := func() bool {
		if stash != nil || len(ch) > 0 || st.closed {
			return true
		}
		// The channel may have been created and closed before exploration started (no record of it):
		// a non-blocking receive on an empty channel succeeds exactly when it is closed.
		select {
		case v, ok := <-ch:
			if !ok {
				st.closed = true
			} else {
				stash = &v
			}
			return true
		default:
			return false
		}
	}
	Block("recv-wait", func() bool { return !ready() })
	if stash != nil {
		return *stash
	}
	return <-ch
}

// RecvOK is Recv for the two-value form (and for range loops over a channel): ok is false when ch is closed and drained.
func RecvOK[T any](ch <-chan T) (T, bool) {
	s := active
	if s == nil || s.cur == nil {
		v, ok := <-ch
		return v, ok
	}
	var zero T
	if ch == nil {
		Block("recv-nil", func() bool { return true })
		return zero, false
	}
	s.schedule("recv")
	st := s.state(ch)
	var stash *T
	ready := func() bool {
		if stash != nil || len(ch) > 0 || st.closed {
			return true
		}
		select {
		case v, ok := <-ch:
			if !ok {
				st.closed = true
			} else {
				stash = &v
			}
			return true
		default:
			return false
		}
	}
	Block("recv-wait", func() bool { return !ready() })
	if stash != nil {
		return *stash, true
	}
	v, ok := <-ch
	return v, ok
}

// Close closes ch.
func Close[T any](ch chan T) {
	if s := active; s != nil && s.cur != nil {
		s.schedule("close")
		s.state(ch).closed = true
	}
	close(ch)
}

// Send sends v on the (buffered) channel ch.
func Send[T any](ch chan T, v T) {
	if s := active; s != nil && s.cur != nil {
		s.schedule("send")
		Block("send-wait", func() bool { return len(ch) == cap(ch) })
	}
	ch <- v
}

// ---------------------------------------------------------------------------
// exploration

// Stats summarises an exploration.
type Stats struct {
	Executions int
	MaxPoints  int
	Preempt    map[int]int // executions per number of preemptions
	Capped     bool
}

func preemptions(points []PointRec, upto int) int {
	n := 0
	for i := 0; i < upto && i < len(points); i++ {
		p := points[i]
		if p.RunEnabled && p.Chosen != 0 {
			n++
		}
	}
	return n
}

// Explore enumerates all executions of body with at most bound preemptions (bound < 0: unbounded).
// body must build a fresh instance, register threads on s and call s.Run(); check judges the finished execution.
func Explore(bound int, maxExec int, body func(s *Scheduler), check func(s *Scheduler, choices []int)) Stats {
	st := Stats{Preempt: map[int]int{}}
	var rec func(prefix []int)
	rec = func(prefix []int) {
		if maxExec > 0 && st.Executions >= maxExec {
			st.Capped = true
			return
		}
		s := New(prefix)
		body(s)
		st.Executions++
		if len(s.Points) > st.MaxPoints {
			st.MaxPoints = len(s.Points)
		}
		choices := make([]int, len(s.Points))
		for i, p := range s.Points {
			choices[i] = p.Chosen
		}
		st.Preempt[preemptions(s.Points, len(s.Points))]++
		check(s, choices)
		for i := len(prefix); i < len(s.Points); i++ {
			p := s.Points[i]
			cost := preemptions(s.Points, i)
			for alt := 1; alt < len(p.Enabled); alt++ {
				c := cost
				if p.RunEnabled {
					c++
				}
				if bound >= 0 && c > bound {
					continue
				}
				rec(append(append([]int{}, choices[:i]...), alt))
			}
		}
	}
	rec(nil)
	return st
}
