//go:build verif

package kubernetes

import (
	"fmt"
	"testing"

	"github.com/containers/nri-plugins/pkg/verif/mc"
)

func c20Viol(w *mc.Worker, oracle, input, detail string) {
	w.Report(mc.Violation{Property: "C20", Oracle: oracle, Signature: oracle, Scenario: "kubernetes",
		Trace: []string{input}, Detail: detail})
}

// c20Check judges one input; kind is "cpu" (request/limit value in mCPU), "shares" or "cap" (memory capacity).
func c20Check(w *mc.Worker, kind string, v int64) {
	switch kind {
	case "cpu":
		m := v
		in := fmt.Sprintf("cpu:%d", m)
		s := int64(MilliCPUToShares(m))
		back := SharesToMilliCPU(s)
		tol := int64(1)
		if s == MinShares {
			tol = 2
		}
		if d := back - m; d > tol || d < -tol {
			c20Viol(w, "shares-roundtrip-tolerance", in, fmt.Sprintf("request %dm -> shares %d -> %dm", m, s, back))
		}
		if m%125 == 0 && back != m {
			c20Viol(w, "shares-roundtrip-exact-125", in, fmt.Sprintf("request %dm -> shares %d -> %dm", m, s, back))
		}
		if m > 0 {
			prev := SharesToMilliCPU(int64(MilliCPUToShares(m - 1)))
			if prev > back {
				c20Viol(w, "shares-roundtrip-monotone", in, fmt.Sprintf("%dm -> %dm but %dm -> %dm", m-1, prev, m, back))
			}
		}
		q, p := MilliCPUToQuota(m)
		lb := QuotaToMilliCPU(q, p)
		if m >= 10 && lb != m {
			c20Viol(w, "quota-roundtrip-exact", in, fmt.Sprintf("limit %dm -> quota %d/%d -> %dm", m, q, p, lb))
		}
		if m > 0 {
			pq, pp := MilliCPUToQuota(m - 1)
			if pl := QuotaToMilliCPU(pq, pp); pl > lb {
				c20Viol(w, "quota-roundtrip-monotone", in, fmt.Sprintf("%dm -> %dm but %dm -> %dm", m-1, pl, m, lb))
			}
		}
	case "shares":
		in := fmt.Sprintf("shares:%d", v)
		if v > MinShares && SharesToMilliCPU(v-1) > SharesToMilliCPU(v) {
			c20Viol(w, "shares-decode-monotone", in, fmt.Sprintf("shares %d -> %dm, shares %d -> %dm", v-1, SharesToMilliCPU(v-1), v, SharesToMilliCPU(v)))
		}
		// decode -> encode must give the same shares back (the reconstruction loses nothing the kubelet could have encoded)
		if back := int64(MilliCPUToShares(SharesToMilliCPU(v))); back != v && v != MinShares+0 {
			// only a violation if some request encodes to v at all
			lo := (v*MilliCPUToCPU + SharesPerCPU - 1) / SharesPerCPU
			if int64(MilliCPUToShares(lo)) == v {
				d := SharesToMilliCPU(v) - lo
				if d > 1 || d < -1 {
					c20Viol(w, "shares-decode-tolerance", in, fmt.Sprintf("smallest request encoding to %d is %dm, decoded %dm", v, lo, SharesToMilliCPU(v)))
				}
			}
		}
	case "cap":
		in := fmt.Sprintf("cap:%d", v)
		p, msg, _ := mc.Guard(func() { SetMemoryCapacity(v) })
		if p {
			c20Viol(w, "capacity-table-panics", in, msg)
			return
		}
		for adj := int64(MinBurstableOOMScoreAdj); adj <= MaxBurstableOOMScoreAdj; adj++ {
			req := OomAdjToMemReq(adj, 0)
			if req == nil {
				c20Viol(w, "oomadj-missing-estimate", in, fmt.Sprintf("capacity %d: no estimate for oom_score_adj %d", v, adj))
				return
			}
			if got := MemReqToOomAdj(*req); got != adj {
				c20Viol(w, "oomadj-roundtrip", in, fmt.Sprintf("capacity %d: adj %d -> request %d -> adj %d", v, adj, *req, got))
				return
			}
			// the same with a memory limit: limits on and around the boundaries of the adjustment's request range
			lims := []int64{*req + 1, v}
			if adj > MinBurstableOOMScoreAdj {
				if next := OomAdjToMemReq(adj-1, 0); next != nil {
					lims = append(lims, *next-1, *next, *next+1)
				}
			}
			for _, lim := range lims {
				r := OomAdjToMemReq(adj, lim)
				if r == nil {
					continue
				}
				if got := MemReqToOomAdj(*r); got != adj {
					c20Viol(w, "oomadj-roundtrip-with-limit", in, fmt.Sprintf("capacity %d: adj %d with limit %d -> request %d -> adj %d", v, adj, lim, *r, got))
					return
				}
			}
		}
	}
}

// c20Capacities enumerates the capacity family: a dense interval above 1 MiB plus structured families up to 16 TiB.
func c20Capacities(thorough bool) func(yield func(int64) bool) {
	return func(yield func(int64) bool) {
		const MiB = int64(1) << 20
		dense := int64(1) << 18
		if thorough {
			dense = int64(1) << 22
		}
		for c := MiB; c < MiB+dense; c++ {
			if !yield(c) {
				return
			}
		}
		deltas := []int64{-1000, -513, -3, -1, 0, 1, 2, 7, 999, 1000, 1001, 4096}
		for k := 20; k <= 44; k++ {
			for _, d := range deltas {
				if c := (int64(1) << k) + d; c >= MiB {
					if !yield(c) {
						return
					}
				}
			}
		}
		for p := int64(10_000_000); p <= 10_000_000_000_000; p *= 10 {
			for _, d := range deltas {
				if !yield(p + d) {
					return
				}
			}
		}
		step := int64(1000)
		if thorough {
			step = 100
		}
		// multiples of 1000 (and neighbours) spread over [1 MiB, 16 TiB)
		for i := int64(1); i < 20000; i++ {
			c := MiB + i*i*step*41
			for _, d := range []int64{-1, 0, 1} {
				if c+d < int64(16)<<40 {
					if !yield((c/1000)*1000 + d) {
						return
					}
				}
			}
		}
		// sizes of real machines (kB-granular MemTotal values)
		for _, kb := range []int64{1009140, 2035760, 3926308, 8052172, 16309548, 32768000, 65536000 - 4, 131072000 + 12, 263956140, 527912280, 1056561100, 2113122200} {
			for d := int64(-8); d <= 8; d++ {
				if !yield((kb + d) * 1024) {
					return
				}
			}
		}
	}
}

func TestVerifC20(t *testing.T) {
	w := mc.NewWorker(t, "C20")
	defer w.Finish()
	if w.ReplayV != nil {
		var kind string
		var v int64
		in := w.ReplayV.Trace[0]
		for i := range in {
			if in[i] == ':' {
				kind = in[:i]
				fmt.Sscanf(in[i+1:], "%d", &v)
			}
		}
		w.Replayer = nil
		c20Check(w, kind, v)
		for _, x := range w.Res.Violations {
			t.Logf("REPLAY %s %s: %s", x.Property, x.Signature, x.Detail)
		}
		return
	}
	orig := GetMemoryCapacity()
	defer SetMemoryCapacity(orig)
	idx := 0
	nontrivial := map[string]bool{}
	for m := int64(0); m <= 256000; m++ {
		if w.Mine(idx) {
			c20Check(w, "cpu", m)
			w.Res.Evaluations++
			if s := MilliCPUToShares(m); s > MinShares && s < MaxShares {
				w.Res.Nontrivial++
			}
		}
		idx++
	}
	for s := int64(MinShares); s <= MaxShares; s++ {
		if w.Mine(idx) {
			c20Check(w, "shares", s)
			w.Res.Evaluations++
		}
		idx++
	}
	outcomes := map[int64]bool{}
	for c := range c20Capacities(w.Thorough()) {
		if w.Mine(idx) {
			if w.Expired() {
				w.Cap("deadline reached in the capacity family at index %d", idx)
				break
			}
			c20Check(w, "cap", c)
			w.Res.Evaluations++
			key := fmt.Sprint(c)
			if !nontrivial[key] {
				nontrivial[key] = true
				w.Res.Nontrivial++
			}
			if r := OomAdjToMemReq(500, 0); r != nil {
				outcomes[*r] = true
			}
			if len(w.Res.Samples) < 2 {
				w.Sample(map[string]any{"capacity": c, "estimate(adj=500)": *OomAdjToMemReq(500, 0)})
			}
		}
		idx++
	}
	w.Res.Outcomes = int64(len(outcomes))
	w.Sample(map[string]any{"cpu_mCPU": 1375, "shares": MilliCPUToShares(1375), "decoded": SharesToMilliCPU(int64(MilliCPUToShares(1375)))})
}
