//go:build verif

package metrics

import "github.com/containers/nri-plugins/pkg/metrics"

// VerifSetGatherer switches the metrics gatherer on (without polling and without an HTTP endpoint) or off, which is
// what decides whether Block() takes the gatherer lock in every request handler (prometheusExport on/off).
func VerifSetGatherer(on bool) error {
	if !on {
		gatherer = nil
		return nil
	}
	// a private, empty registry: what matters is the gatherer's lock, not which collectors it would export
	// (the default registry accumulates the collectors of every instance a harness process creates)
	g, err := metrics.NewRegistry().NewGatherer(metrics.WithoutPolling())
	if err != nil {
		return err
	}
	gatherer = g
	return nil
}
