//go:build verif

package watch

// C17, watch half: the agent learns about configuration resources only through ObjectWatch, which transparently re-opens
// the underlying API watch when it expires, fails or cannot be created. Explicit-state search over environment events on
// the real ObjectWatch (its goroutine and all): the retry timer is owned by the harness (vgen redirects the file's "time"
// import to vtime), the API is a fake whose watches are unbuffered so that an injected event has been taken when the
// injection returns, and the watch goroutine is waited for until it blocks in its select again (runtime stack) before
// the state is judged.

import (
	"context"
	"fmt"
	"runtime"
	"strings"
	"testing"
	"time"

	metav1 "k8s.io/apimachinery/pkg/apis/meta/v1"
	k8swatch "k8s.io/apimachinery/pkg/watch"

	"github.com/containers/nri-plugins/pkg/verif/mc"
	"github.com/containers/nri-plugins/pkg/verif/vtime"
)

type fakeWif struct {
	ch      chan Event
	stopped bool
}

func (f *fakeWif) Stop()                    { f.stopped = true }
func (f *fakeWif) ResultChan() <-chan Event { return f.ch }

type fakeAPI struct {
	down    bool
	created []*fakeWif
}

func (a *fakeAPI) create(ctx context.Context, ns, name string) (Interface, error) {
	if a.down {
		return nil, fmt.Errorf("api server unreachable")
	}
	w := &fakeWif{ch: make(chan Event)}
	a.created = append(a.created, w)
	return w, nil
}

// open returns the watch the ObjectWatch currently listens to (the last one created, unless stopped or closed).
func (a *fakeAPI) open() *fakeWif {
	if n := len(a.created); n > 0 && !a.created[n-1].stopped && a.created[n-1].ch != nil {
		return a.created[n-1]
	}
	return nil
}

// quiesce waits until the ObjectWatch goroutine is blocked in its select.
func quiesce(t *testing.T) {
	buf := make([]byte, 1<<16)
	for i := 0; i < 20000; i++ {
		n := runtime.Stack(buf, true)
		found, busy := 0, 0
		for _, g := range strings.Split(string(buf[:n]), "\n\n") {
			if strings.Contains(g, "(*ObjectWatch).run.func1") {
				found++
				if !strings.Contains(strings.SplitN(g, "\n", 2)[0], "[select") {
					busy++
				}
			}
		}
		if found == 1 && busy == 0 {
			return
		}
		if found > 1 {
			t.Fatalf("%d ObjectWatch goroutines alive, the harness keeps exactly one", found)
		}
		runtime.Gosched()
		if i > 1000 {
			time.Sleep(50 * time.Microsecond)
		}
	}
	t.Fatalf("the watch goroutine does not become quiescent")
}

type owRun struct {
	api      *fakeAPI
	w        Interface
	sent     []string // events the API delivered
	received []string // events the consumer got
}

func owApply(t *testing.T, r *owRun, ev string) {
	drain := func() {
		for {
			select {
			case e, ok := <-r.w.ResultChan():
				if !ok {
					return
				}
				r.received = append(r.received, string(e.Type))
			default:
				return
			}
		}
	}
	switch ev {
	case "added", "modified", "deleted", "error":
		typ := map[string]k8swatch.EventType{"added": Added, "modified": k8swatch.Modified, "deleted": Deleted, "error": Error}[ev]
		if o := r.api.open(); o != nil {
			var obj = &metav1.Status{}
			o.ch <- Event{Type: typ, Object: obj}
			r.sent = append(r.sent, string(typ))
		}
	case "expire":
		if o := r.api.open(); o != nil {
			close(o.ch)
			o.ch = nil
		}
	case "api-down":
		r.api.down = true
	case "api-up":
		r.api.down = false
	case "timer":
		vtime.Fire()
	}
	quiesce(t)
	drain()
}

func owEnabled(r *owRun) []string {
	evs := []string{}
	if r.api.open() != nil {
		evs = append(evs, "added", "modified", "deleted", "error", "expire")
	}
	if r.api.down {
		evs = append(evs, "api-up")
	} else {
		evs = append(evs, "api-down")
	}
	if vtime.Armed() > 0 {
		evs = append(evs, "timer")
	}
	return evs
}

func TestVerifC17Watch(t *testing.T) {
	w := mc.NewWorker(t, "C17")
	defer w.Finish()
	run := func(trace []string) (*owRun, []mc.Violation) {
		vtime.Control(true)
		r := &owRun{api: &fakeAPI{}}
		var err error
		r.w, err = Object(context.Background(), "ns", "cfg", r.api.create)
		if err != nil {
			t.Fatalf("%v", err)
		}
		quiesce(t)
		var viols []mc.Violation
		viol := func(oracle, format string, args ...any) {
			viols = append(viols, mc.Violation{Property: "C17", Oracle: oracle, Signature: "watch:" + oracle, Scenario: "object-watch", Trace: append([]string{}, trace...), Detail: fmt.Sprintf(format, args...)})
		}
		for _, ev := range trace {
			owApply(t, r, ev)
		}
		// every event the API delivered reaches the consumer, in order, exactly once
		if strings.Join(r.sent, ",") != strings.Join(r.received, ",") {
			viol("events-lost-or-reordered", "the API delivered %v, the consumer received %v", r.sent, r.received)
		}
		// the watch never dies: it either listens to an open API watch or has a retry pending
		if r.api.open() == nil && vtime.Armed() == 0 {
			viol("watch-dead", "after %v the ObjectWatch neither holds an open API watch nor has a retry timer armed: no later event can ever reach the agent", trace)
		}
		// and it recovers: with the API up, letting the pending retries expire must give an open watch
		if r.api.open() == nil && vtime.Armed() > 0 {
			wasDown := r.api.down
			r.api.down = false
			for i := 0; i < 3 && r.api.open() == nil && vtime.Armed() > 0; i++ {
				owApply(t, r, "timer")
			}
			if r.api.open() == nil {
				viol("watch-does-not-recover", "after %v, with the API reachable again and the retry timers expired, the ObjectWatch still has no open API watch", trace)
			}
			_ = wasDown
		}
		r.w.Stop()
		return r, viols
	}
	w.Replayer = func(sc string, trace []string) []mc.Violation {
		_, v := run(trace)
		return v
	}
	if w.ReplayV != nil {
		if w.ReplayV.Scenario != "object-watch" {
			return
		}
		for _, v := range w.Replayer(w.ReplayV.Scenario, w.ReplayV.Trace) {
			t.Logf("REPLAY %s %s: %s", v.Property, v.Signature, v.Detail)
			w.Res.Violations = append(w.Res.Violations, v)
		}
		return
	}
	depth := 6
	if w.Thorough() {
		depth = 8
	}
	ex := &mc.Explorer{W: w, Scenario: "object-watch", Depth: depth, Run: func(tr []string) mc.Step {
		// the enabled set and the key are taken BEFORE the closing recovery probe of run() changes anything
		vtime.Control(true)
		r := &owRun{api: &fakeAPI{}}
		var err error
		r.w, err = Object(context.Background(), "ns", "cfg", r.api.create)
		if err != nil {
			t.Fatalf("%v", err)
		}
		quiesce(t)
		for _, ev := range tr {
			owApply(t, r, ev)
		}
		ow := r.w.(*ObjectWatch) // quiescent: its fields can be read
		key := fmt.Sprintf("open=%v down=%v armed=%d wif=%v reopenC=%v failing=%v undelivered=%d", r.api.open() != nil, r.api.down, vtime.Armed(),
			ow.wif != nil, ow.reopenC != nil, ow.failing, len(r.sent)-len(r.received))
		en := owEnabled(r)
		r.w.Stop()
		_, v := run(tr)
		return mc.Step{Key: key, Enabled: en, Violations: v, Nontrivial: strings.Contains(strings.Join(tr, ","), "timer"), Outcome: key}
	}}
	st, trn, d := ex.Explore()
	w.Note("object-watch: states=%d transitions=%d depth=%d", st, trn, d)
	vtime.Control(false)
}
