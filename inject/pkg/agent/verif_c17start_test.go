//go:build verif

package agent

// C17 through the real event loop: Agent.Start() with its three real ObjectWatch wrappers. The node watch is served by a
// local HTTP server (one ADDED event for the node, no group label, so the group/default watch is the one for "default");
// the configuration watches come from a ConfigInterface that hands out harness-owned watchers; the reopen timer of the
// wrappers is harness-owned (vtime). Events: per kind add / modify / same-version re-delivery / delete / watch error, and
// the expiry of the oldest reopen timer (a reopened watch re-delivers the object if it exists, as the API server does).
// After every event the harness waits until the loop and all wrapper goroutines are parked and every watcher channel is
// empty, then judges what the plugin was handed against the reference machine of verif_c17_test.go (last object received
// per kind; effective = node if present else group). A watch error is not an event of the reference: it changes nothing.

import (
	"context"
	"fmt"
	"net/http"
	"net/http/httptest"
	"os"
	"path/filepath"
	"runtime"
	"strings"
	"sync"
	"sync/atomic"
	"testing"
	"time"

	metav1 "k8s.io/apimachinery/pkg/apis/meta/v1"
	k8sruntime "k8s.io/apimachinery/pkg/runtime"
	"k8s.io/apimachinery/pkg/types"
	k8swatch "k8s.io/apimachinery/pkg/watch"
	"k8s.io/client-go/rest"

	"github.com/containers/nri-plugins/pkg/agent/watch"
	cfgapi "github.com/containers/nri-plugins/pkg/apis/config/v1alpha1"
	logger "github.com/containers/nri-plugins/pkg/log"
	"github.com/containers/nri-plugins/pkg/verif/mc"
	"github.com/containers/nri-plugins/pkg/verif/vtime"
)

type c17sWatcher struct {
	ch      chan k8swatch.Event
	stopped atomic.Bool
}

func (f *c17sWatcher) Stop()                             { f.stopped.Store(true) }
func (f *c17sWatcher) ResultChan() <-chan k8swatch.Event { return f.ch }

type c17sCfgIf struct {
	sync.Mutex
	truth    map[string]*cfgapi.BalloonsPolicy // objects that exist, by resource name
	watchers map[string][]*c17sWatcher
}

func (c *c17sCfgIf) SetKubeClient(*http.Client, *rest.Config) error { return nil }
func (c *c17sCfgIf) PatchStatus(context.Context, string, string, types.PatchType, []byte, metav1.PatchOptions) error {
	return nil
}
func (c *c17sCfgIf) Unmarshal([]byte, string) (k8sruntime.Object, error) {
	return nil, fmt.Errorf("n/a")
}
func (c *c17sCfgIf) CreateWatch(_ context.Context, _, name string) (watch.Interface, error) {
	c.Lock()
	defer c.Unlock()
	w := &c17sWatcher{ch: make(chan k8swatch.Event, 4)}
	c.watchers[name] = append(c.watchers[name], w)
	if o := c.truth[name]; o != nil {
		w.ch <- k8swatch.Event{Type: k8swatch.Added, Object: o.DeepCopy()} // a new watch starts with the current state
	}
	return w, nil
}

// open returns the watcher the wrapper currently listens to.
func (c *c17sCfgIf) open(name string) *c17sWatcher {
	c.Lock()
	defer c.Unlock()
	l := c.watchers[name]
	if n := len(l); n > 0 && !l[n-1].stopped.Load() {
		return l[n-1]
	}
	return nil
}

func (c *c17sCfgIf) pendingEvents() int {
	c.Lock()
	defer c.Unlock()
	n := 0
	for _, l := range c.watchers {
		for _, w := range l {
			if !w.stopped.Load() {
				n += len(w.ch)
			}
		}
	}
	return n
}

// c17sQuiesce waits until the event loop and exactly `wrappers` ObjectWatch goroutines are parked in their selects and no
// harness-owned watcher holds an undelivered event - twice in a row.
func c17sQuiesce(cif *c17sCfgIf, wrappers int) error {
	buf := make([]byte, 1<<18)
	calm := 0
	for i := 0; i < 40000; i++ {
		n := runtime.Stack(buf, true)
		ow, owBusy, loop, loopBusy := 0, 0, 0, 0
		for _, g := range strings.Split(string(buf[:n]), "\n\n") {
			head := strings.SplitN(g, "\n", 2)[0]
			if strings.Contains(g, "(*ObjectWatch).run.func1") {
				ow++
				if !strings.Contains(head, "[select") {
					owBusy++
				}
			}
			if strings.Contains(g, "agent.(*Agent).Start(") {
				loop++
				if !strings.Contains(head, "[select") {
					loopBusy++
				}
			}
		}
		if ow == wrappers && owBusy == 0 && loop == 1 && loopBusy == 0 && cif.pendingEvents() == 0 {
			calm++
			if calm >= 2 {
				return nil
			}
		} else {
			calm = 0
		}
		runtime.Gosched()
		if i > 200 {
			time.Sleep(100 * time.Microsecond)
		}
	}
	return fmt.Errorf("the agent does not become quiescent")
}

type c17sRun struct {
	a         *Agent
	cif       *c17sCfgIf
	mu        sync.Mutex
	delivered []string
	done      chan error
	nUID      map[string]int
}

func c17sName(kind string) string {
	if kind == "N" {
		return "node.n1"
	}
	return "default"
}

func c17sStart(kubeConfig string) (*c17sRun, error) {
	vtime.Control(true)
	r := &c17sRun{cif: &c17sCfgIf{truth: map[string]*cfgapi.BalloonsPolicy{}, watchers: map[string][]*c17sWatcher{}}, done: make(chan error, 1), nUID: map[string]int{}}
	a, err := New(r.cif, WithKubeConfig(kubeConfig), WithConfigNamespace("kube-system"))
	if err != nil {
		return nil, err
	}
	r.a = a
	go func() {
		r.done <- a.Start(func(cfg interface{}) (bool, error) {
			r.mu.Lock()
			r.delivered = append(r.delivered, c17ID(cfg.(metav1.Object)))
			r.mu.Unlock()
			return false, nil
		})
	}()
	// the node-specific watch is created at once, the default watch when the node event has arrived over HTTP
	for i := 0; i < 20000; i++ {
		r.cif.Lock()
		n := len(r.cif.watchers["node.n1"]) + len(r.cif.watchers["default"])
		r.cif.Unlock()
		if n == 2 {
			return r, c17sQuiesce(r.cif, 3)
		}
		select {
		case err := <-r.done:
			return nil, fmt.Errorf("agent exited: %v", err)
		default:
		}
		time.Sleep(200 * time.Microsecond)
	}
	return nil, fmt.Errorf("the agent never opened its configuration watches")
}

func (r *c17sRun) stop() {
	close(r.a.stopC)
	select {
	case <-r.done:
	case <-time.After(10 * time.Second):
		panic("the agent's event loop does not stop")
	}
	vtime.Control(false)
}

// enabled lists the events the environment can produce now.
func (r *c17sRun) enabled() []string {
	var evs []string
	for _, k := range []string{"N", "G"} {
		name := c17sName(k)
		if r.cif.open(name) == nil {
			continue // the wrapper is between an error and its reopen: nothing can be delivered
		}
		if r.cif.truth[name] == nil {
			evs = append(evs, k+":add")
		} else {
			evs = append(evs, k+":mod", k+":same", k+":del")
		}
		evs = append(evs, k+":err")
	}
	if vtime.Armed() > 0 {
		evs = append(evs, "timer")
	}
	return evs
}

// apply produces one event and returns the id the reference machine sees for it ("" = not an event of the reference).
func (r *c17sRun) apply(ev string) (kind, id string, err error) {
	if ev == "timer" {
		go vtime.Fire() // blocks until the wrapper takes it
		return "", "", c17sQuiesce(r.cif, 3)
	}
	f := strings.Split(ev, ":")
	kind = f[0]
	name := c17sName(kind)
	w := r.cif.open(name)
	send := func(t k8swatch.EventType, o k8sruntime.Object) { w.ch <- k8swatch.Event{Type: t, Object: o} }
	switch f[1] {
	case "add":
		r.nUID[kind]++
		o := c17Obj(fmt.Sprintf("%s:u%d:1:ok", kind, r.nUID[kind]))
		r.cif.truth[name] = o
		id = c17ID(o)
		send(k8swatch.Added, o.DeepCopy())
	case "mod":
		old := r.cif.truth[name]
		o := c17Obj(fmt.Sprintf("%s:%s:%d:ok", kind, old.UID, old.Generation+1))
		r.cif.truth[name] = o
		id = c17ID(o)
		send(k8swatch.Modified, o.DeepCopy())
	case "same":
		o := r.cif.truth[name]
		id = c17ID(o)
		send(k8swatch.Modified, o.DeepCopy())
	case "del":
		o := r.cif.truth[name]
		delete(r.cif.truth, name)
		id = "-"
		send(k8swatch.Deleted, o.DeepCopy())
	case "err":
		id = ""
		send(k8swatch.Error, &metav1.Status{Status: metav1.StatusFailure, Reason: metav1.StatusReasonExpired, Code: http.StatusGone, Message: "too old resource version"})
	}
	return kind, id, c17sQuiesce(r.cif, 3)
}

func c17sExec(kubeConfig, scenario string, trace []string) mc.Step {
	st := mc.Step{}
	viol := func(oracle, detail string) {
		st.Violations = append(st.Violations, mc.Violation{Property: "C17", Oracle: oracle, Signature: "loop:" + oracle, Scenario: scenario,
			Trace: append([]string{}, trace...), Detail: detail})
	}
	r, err := c17sStart(kubeConfig)
	if err != nil {
		viol("harness", err.Error())
		return st
	}
	defer r.stop()
	ref := c17Ref{node: "-", group: "-", last: "-"}
	for i, ev := range trace {
		last := i == len(trace)-1
		r.mu.Lock()
		before := len(r.delivered)
		r.mu.Unlock()
		kind, id, err := r.apply(ev)
		if err != nil {
			viol("not-quiescent", fmt.Sprintf("after %s: %v", ev, err))
			return st
		}
		dup := false
		switch {
		case id == "":
			// a watch error, or a timer: nothing the reference machine knows about. A reopened watch re-delivers the
			// object it watches with the same version: a duplicate.
			dup = true
		case kind == "N":
			if dup = c17Dup(id, ref.node); !dup {
				ref.node = id
			}
		default:
			if dup = c17Dup(id, ref.group); !dup {
				ref.group = id
			}
		}
		r.mu.Lock()
		now := append([]string{}, r.delivered[before:]...)
		r.mu.Unlock()
		if len(now) > 0 {
			ref.last = now[len(now)-1]
		}
		if !last {
			continue
		}
		eff := ref.node
		if eff == "-" {
			eff = ref.group
		}
		st.Outcome = fmt.Sprintf("%s/%d/%v", ev, len(now), dup)
		if len(now) > 1 {
			viol("more-than-one-delivery", fmt.Sprintf("event %s delivered %v", ev, now))
		}
		for _, d := range now {
			if d != eff {
				viol("delivered-not-effective", fmt.Sprintf("event %s delivered %s but the effective configuration is %s (node=%s group=%s)", ev, d, eff, ref.node, ref.group))
			}
		}
		if dup && len(now) > 0 {
			viol("duplicate-redelivered", fmt.Sprintf("event %s changes no configuration (watch error, reopened watch or same version) but caused delivery %v (node=%s group=%s)", ev, now, ref.node, ref.group))
		}
		if eff != "-" && ref.last != eff {
			viol("effective-not-delivered", fmt.Sprintf("after %s the effective configuration is %s but the plugin last received %s", ev, eff, ref.last))
		}
	}
	down := ""
	for _, k := range []string{"N", "G"} {
		if r.cif.open(c17sName(k)) == nil {
			down += k
		}
	}
	st.Enabled = r.enabled()
	st.Key = fmt.Sprintf("n=%s g=%s cur=%s last=%s refn=%s refg=%s down=%s timers=%d", c17ID(r.a.nodeCfg), c17ID(r.a.groupCfg), c17ID(r.a.currentCfg), ref.last, ref.node, ref.group, down, vtime.Armed())
	st.Nontrivial = ref.node != "-" && ref.group != "-"
	return st
}

func TestVerifC17Start(t *testing.T) {
	logger.SetLevel(logger.LevelPanic)
	w := mc.NewWorker(t, "C17")
	defer w.Finish()
	srv := httptest.NewServer(http.HandlerFunc(func(rw http.ResponseWriter, rq *http.Request) {
		if rq.URL.Path != "/api/v1/nodes" || rq.URL.Query().Get("watch") == "" {
			http.NotFound(rw, rq)
			return
		}
		rw.Header().Set("Content-Type", "application/json")
		rw.WriteHeader(http.StatusOK)
		fmt.Fprintf(rw, `{"type":"ADDED","object":{"kind":"Node","apiVersion":"v1","metadata":{"name":"n1","uid":"node-uid","resourceVersion":"1"}}}`+"\n")
		rw.(http.Flusher).Flush()
		<-rq.Context().Done()
	}))
	defer srv.Close()
	dir := t.TempDir()
	kubeConfig := filepath.Join(dir, "kubeconfig")
	cfg := fmt.Sprintf("apiVersion: v1\nkind: Config\nclusters:\n- name: v\n  cluster:\n    server: %s\ncontexts:\n- name: v\n  context:\n    cluster: v\n    user: v\ncurrent-context: v\nusers:\n- name: v\n  user: {}\n", srv.URL)
	if err := os.WriteFile(kubeConfig, []byte(cfg), 0o600); err != nil {
		t.Fatal(err)
	}
	t.Setenv("NODE_NAME", "n1")
	scenario := "agent-loop"
	w.Replayer = func(sc string, trace []string) []mc.Violation { return c17sExec(kubeConfig, sc, trace).Violations }
	if w.ReplayV != nil {
		if w.ReplayV.Scenario != scenario {
			return
		}
		for _, v := range w.Replayer(w.ReplayV.Scenario, w.ReplayV.Trace) {
			t.Logf("REPLAY %s %s: %s", v.Property, v.Signature, v.Detail)
			w.Res.Violations = append(w.Res.Violations, v)
		}
		return
	}
	depth := 5
	if w.Thorough() {
		depth = 7
	}
	ex := &mc.Explorer{W: w, Scenario: scenario, Depth: depth, Run: func(tr []string) mc.Step { return c17sExec(kubeConfig, scenario, tr) }}
	s, tr, d := ex.Explore()
	w.Note("agent loop: depth=%d covered=%d states=%d transitions=%d", depth, d, s, tr)
}
