//go:build verif

package agent

import (
	"context"
	"fmt"
	"net/http"
	"strings"
	"testing"

	metav1 "k8s.io/apimachinery/pkg/apis/meta/v1"
	"k8s.io/apimachinery/pkg/runtime"
	"k8s.io/apimachinery/pkg/types"
	"k8s.io/client-go/rest"

	"github.com/containers/nri-plugins/pkg/agent/watch"
	cfgapi "github.com/containers/nri-plugins/pkg/apis/config/v1alpha1"
	balloons "github.com/containers/nri-plugins/pkg/apis/config/v1alpha1/resmgr/policy/balloons"
	resmgr "github.com/containers/nri-plugins/pkg/apis/resmgr/v1alpha1"
	logger "github.com/containers/nri-plugins/pkg/log"
	"github.com/containers/nri-plugins/pkg/verif/mc"
)

// fake ConfigInterface: nothing reaches the outside world.
type c17CfgIf struct{}

func (c17CfgIf) SetKubeClient(*http.Client, *rest.Config) error { return nil }
func (c17CfgIf) CreateWatch(context.Context, string, string) (watch.Interface, error) {
	return nil, fmt.Errorf("no watches in the harness")
}
func (c17CfgIf) PatchStatus(context.Context, string, string, types.PatchType, []byte, metav1.PatchOptions) error {
	return nil
}
func (c17CfgIf) Unmarshal([]byte, string) (runtime.Object, error) { return nil, fmt.Errorf("n/a") }

// c17Obj builds the configuration object named by an event id "<kind>:<uid>:<gen>:<flavour>".
func c17Obj(id string) *cfgapi.BalloonsPolicy {
	f := strings.Split(id, ":")
	kind, uid, flavour := f[0], f[1], f[3]
	var gen int64
	fmt.Sscanf(f[2], "%d", &gen)
	name := "default"
	if kind == "N" {
		name = "node.n1"
	}
	o := &cfgapi.BalloonsPolicy{}
	o.Name = name
	o.UID = types.UID(uid)
	o.Generation = gen
	o.Labels = map[string]string{"verif-id": id}
	if flavour == "inv" {
		o.Spec.Config.BalloonDefs = []*balloons.BalloonDef{{
			Name:             "x",
			MatchExpressions: []resmgr.Expression{{Key: "name", Op: resmgr.Equals, Values: []string{"a", "b"}}},
		}}
	}
	return o
}

func c17ID(o metav1.Object) string {
	if o == nil {
		return "-"
	}
	return o.GetLabels()["verif-id"]
}

func c17Valid(id string) bool { return id != "-" && !strings.HasSuffix(id, ":inv") }

// reference machine: last received object per kind; effective = node if present else group.
type c17Ref struct {
	node, group, last string
}

func c17Dup(newID, oldID string) bool {
	if newID == "-" && oldID == "-" {
		return true
	}
	if newID == "-" || oldID == "-" {
		return false
	}
	n, o := strings.Split(newID, ":"), strings.Split(oldID, ":")
	return n[1] == o[1] && n[2] == o[2] && n[2] != "0"
}

func c17Alphabet(thorough bool) []string {
	evs := []string{}
	for _, k := range []string{"N", "G"} {
		evs = append(evs,
			k+":u1:1:ok", k+":u1:2:ok", k+":u1:2:inv", k+":u2:1:ok", k+":u1:0:ok", k+":del")
		if thorough {
			evs = append(evs, k+":u1:1:err", k+":u2:1:inv")
		} else {
			evs = append(evs, k+":u1:1:err")
		}
	}
	return evs
}

// c17Run applies trace to a fresh real Agent and judges the last event.
func c17Run(scenario string, alphabet []string, trace []string) mc.Step {
	a, err := New(c17CfgIf{}, WithConfigFile("/nonexistent-verif"))
	if err != nil {
		panic(err)
	}
	var delivered []string
	a.notifyFn = func(cfg interface{}) (bool, error) {
		id := c17ID(cfg.(metav1.Object))
		delivered = append(delivered, id)
		if strings.HasSuffix(id, ":err") {
			return false, fmt.Errorf("plugin refused configuration")
		}
		return false, nil
	}
	ref := c17Ref{node: "-", group: "-", last: "-"}
	st := mc.Step{Enabled: alphabet}
	viol := func(oracle, detail string) {
		st.Violations = append(st.Violations, mc.Violation{
			Property: "C17", Oracle: oracle, Signature: oracle, Scenario: scenario,
			Trace: append([]string{}, trace...), Detail: detail,
		})
	}
	for i, ev := range trace {
		last := i == len(trace)-1
		before := len(delivered)
		kind := ev[:1]
		var obj runtime.Object
		id := "-"
		if !strings.HasSuffix(ev, ":del") {
			o := c17Obj(ev)
			obj, id = o, ev
		}
		dup := false
		if kind == "N" {
			dup = c17Dup(id, ref.node)
			if !dup {
				ref.node = id
			}
			p, msg, where := mc.Guard(func() { a.updateNodeConfig(obj) })
			if p && last {
				viol("panic@"+where, msg)
			}
		} else {
			dup = c17Dup(id, ref.group)
			if !dup {
				ref.group = id
			}
			p, msg, where := mc.Guard(func() { a.updateGroupConfig(obj) })
			if p && last {
				viol("panic@"+where, msg)
			}
		}
		now := delivered[before:]
		if len(now) > 0 {
			ref.last = now[len(now)-1]
		}
		if !last {
			continue
		}
		eff := ref.node
		if eff == "-" {
			eff = ref.group
		}
		st.Outcome = fmt.Sprintf("%s/%d/%v", kind, len(now), dup)
		if len(now) > 1 {
			viol("more-than-one-delivery", fmt.Sprintf("event %s delivered %v", ev, now))
		}
		for _, d := range now {
			if !c17Valid(d) {
				viol("invalid-config-delivered", fmt.Sprintf("event %s delivered %s which fails validation", ev, d))
			}
			if d != eff {
				viol("delivered-not-effective", fmt.Sprintf("event %s delivered %s but the effective configuration is %s (node=%s group=%s)", ev, d, eff, ref.node, ref.group))
			}
		}
		if dup && len(now) > 0 {
			viol("duplicate-redelivered", fmt.Sprintf("event %s re-delivers an already received version but caused delivery %v", ev, now))
		}
		if c17Valid(eff) && ref.last != eff {
			viol("effective-not-delivered", fmt.Sprintf("after %s the effective configuration is %s but the plugin last received %s", ev, eff, ref.last))
		}
	}
	st.Key = fmt.Sprintf("n=%s g=%s cur=%s last=%s", c17ID(a.nodeCfg), c17ID(a.groupCfg), c17ID(a.currentCfg), ref.last)
	st.Nontrivial = ref.node != "-" && ref.group != "-"
	return st
}

func TestVerifC17(t *testing.T) {
	logger.SetLevel(logger.LevelPanic)
	w := mc.NewWorker(t, "C17")
	defer w.Finish()
	alphabet := c17Alphabet(w.Thorough())
	scenario := "agent"
	w.Replayer = func(sc string, trace []string) []mc.Violation {
		return c17Run(sc, alphabet, trace).Violations
	}
	if w.ReplayV != nil {
		if w.ReplayV.Scenario != scenario {
			return
		}
		vs := w.Replayer(w.ReplayV.Scenario, w.ReplayV.Trace)
		for _, v := range vs {
			t.Logf("REPLAY %s %s: %s", v.Property, v.Signature, v.Detail)
			w.Res.Violations = append(w.Res.Violations, v)
		}
		return
	}
	depth := 6
	if w.Thorough() {
		depth = 9
	}
	ex := &mc.Explorer{W: w, Scenario: scenario, Depth: depth, Run: func(tr []string) mc.Step {
		return c17Run(scenario, alphabet, tr)
	}}
	s, tr, d := ex.Explore()
	w.Note("alphabet=%d events, depth=%d covered=%d states=%d transitions=%d", len(alphabet), depth, d, s, tr)
}
