//go:build verif

package resmgr

import (
	"os"
	"time"

	"github.com/containers/nri-plugins/pkg/verif/vsync"
)

// Handlers run one after another in the sequence harnesses: a resource manager lock that is still taken when the next
// request arrives was leaked by an earlier one. The wait is bounded (and ends in a panic the harness reports) instead of
// hanging the worker. The free-running race stage has real concurrency and gets a generous bound.
func init() {
	vsync.Patience = 2 * time.Second
	if os.Getenv("VERIF_RACE_LOG") != "" {
		vsync.Patience = 30 * time.Second
	}
}
