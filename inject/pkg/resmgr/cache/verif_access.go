//go:build verif

package cache

import "sort"

// VerifImplicitAffinities returns the names of the implicit affinities registered in the cache (state the policies put
// there, which no exported getter shows).
func VerifImplicitAffinities(c Cache) []string {
	cch, ok := c.(*cache)
	if !ok {
		return nil
	}
	var names []string
	for n := range cch.implicit {
		names = append(names, n)
	}
	sort.Strings(names)
	return names
}
