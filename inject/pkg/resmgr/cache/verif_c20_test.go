//go:build verif

package cache

import (
	"fmt"
	"testing"

	nri "github.com/containerd/nri/pkg/api"
	corev1 "k8s.io/api/core/v1"

	"github.com/containers/nri-plugins/pkg/kubernetes"
	logger "github.com/containers/nri-plugins/pkg/log"
	"github.com/containers/nri-plugins/pkg/verif/mc"
)

// The cache's reconstruction of requirements from the kubelet's cgroup encoding.
func TestVerifC20Cache(t *testing.T) {
	logger.SetLevel(logger.LevelPanic)
	w := mc.NewWorker(t, "C20")
	defer w.Finish()
	if w.ReplayV != nil {
		return
	}
	kubernetes.SetMemoryCapacity(32 << 30)
	check := func(qos corev1.PodQOSClass, req, lim int64) {
		r := &nri.LinuxResources{Cpu: &nri.LinuxCPU{
			Shares: nri.UInt64(kubernetes.MilliCPUToShares(req)),
		}}
		if lim > 0 {
			q, p := kubernetes.MilliCPUToQuota(lim)
			r.Cpu.Quota = nri.Int64(q)
			r.Cpu.Period = nri.UInt64(uint64(p))
		}
		got := estimateResourceRequirements(r, qos, 500)
		gr := got.Requests.Cpu().MilliValue()
		gl := got.Limits.Cpu().MilliValue()
		in := fmt.Sprintf("%s:req=%d:lim=%d", qos, req, lim)
		tol := int64(1)
		if kubernetes.MilliCPUToShares(req) == kubernetes.MinShares {
			tol = 2
		}
		if d := gr - req; d > tol || d < -tol || (req%125 == 0 && d != 0) {
			w.Report(mc.Violation{Property: "C20", Oracle: "cache-request-reconstruction", Scenario: "cache", Trace: []string{in},
				Detail: fmt.Sprintf("request %dm reconstructed as %dm", req, gr)})
		}
		want := lim
		if qos == corev1.PodQOSGuaranteed {
			want = gr // Guaranteed: limit == request by definition
		}
		if lim >= 10 && gl != want {
			w.Report(mc.Violation{Property: "C20", Oracle: "cache-limit-reconstruction", Scenario: "cache", Trace: []string{in},
				Detail: fmt.Sprintf("limit %dm reconstructed as %dm", lim, gl)})
		}
		w.Res.Evaluations++
		if req > 2 {
			w.Res.Nontrivial++
		}
	}
	idx := 0
	for m := int64(0); m <= 256000; m++ {
		if w.Mine(idx) {
			check(corev1.PodQOSGuaranteed, m, m)
			check(corev1.PodQOSBurstable, m, 0)
			check(corev1.PodQOSBurstable, m/2, m)
			check(corev1.PodQOSBestEffort, 0, m)
		}
		idx++
	}
	w.Sample(map[string]any{"qos": "Burstable", "request_mCPU": 1375, "limit_mCPU": 2750})
	c20ThroughCache(t, w)
}

// c20ThroughCache: the same reconstruction observed where users see it - GetResourceRequirements() of a container inserted
// into a real cache - for a structured family of requests/limits and three histories: a fresh name, a name whose previous
// instance has exited but is still cached (restart, in-place resize with a restart policy), and a name whose previous
// instance is still running. What the plugin reconstructs must come from the new container's own cgroup parameters.
func c20ThroughCache(t *testing.T, w *mc.Worker) {
	dir := t.TempDir()
	c20ThroughCacheOn(t, w, dir, false)
	// fourth history: the pod predates a plugin restart (it is loaded from the state directory), the container is new
	c20ThroughCacheOn(t, w, dir, true)
}

func c20ThroughCacheOn(t *testing.T, w *mc.Worker, dir string, restored bool) {
	cch, err := NewCache(Options{CacheDir: dir})
	if err != nil {
		t.Fatalf("%v", err)
	}
	if restored {
		if _, ok := cch.LookupPod("p"); !ok {
			t.Fatalf("pod not restored")
		}
	}
	if !restored {
		cch.InsertPod(&nri.PodSandbox{Id: "p", Name: "pod", Uid: "u", Namespace: "ns", Linux: &nri.LinuxPodSandbox{CgroupParent: "/kubepods/burstable/podu"}}, nil)
	}
	encode := func(req, lim int64) *nri.LinuxResources {
		r := &nri.LinuxResources{Cpu: &nri.LinuxCPU{Shares: nri.UInt64(kubernetes.MilliCPUToShares(req))}, Memory: &nri.LinuxMemory{Limit: nri.Int64(1 << 30)}}
		if lim > 0 {
			q, p := kubernetes.MilliCPUToQuota(lim)
			r.Cpu.Quota, r.Cpu.Period = nri.Int64(q), nri.UInt64(uint64(p))
		}
		return r
	}
	var family []int64
	for m := int64(2); m <= 4100; m++ {
		family = append(family, m)
	}
	for m := int64(4125); m <= 256000; m += 125 {
		family = append(family, m, m+1)
	}
	n := 0
	for fi, req := range family {
		if !w.Mine(fi) {
			continue
		}
		hists := []string{"fresh", "after-exited-instance", "after-running-instance"}
		if restored {
			if fi%8 != 0 {
				continue
			}
			hists = []string{"pod-restored-after-restart"}
		}
		for _, hist := range hists {
			n++
			var prevID string
			if hist != "fresh" && hist != "pod-restored-after-restart" {
				prevID = fmt.Sprintf("prev%d", n)
				prevReq := req/2 + 100
				pc, err := cch.InsertContainer(&nri.Container{Id: prevID, PodSandboxId: "p", Name: "c", State: nri.ContainerState_CONTAINER_RUNNING,
					Linux: &nri.LinuxContainer{Resources: encode(prevReq, 2*prevReq), OomScoreAdj: &nri.OptionalInt{Value: 900}}})
				if err != nil {
					t.Fatalf("%v", err)
				}
				if hist == "after-exited-instance" {
					pc.UpdateState(ContainerStateExited)
				}
			}
			id := fmt.Sprintf("cur%d", n)
			// the OOM score adjustment the runtime reports: ordinary Burstable values, the fixed value kubelet gives every
			// container of a node-critical pod whatever its QoS class (-997), or none at all
			adjs := []*nri.OptionalInt{{Value: 900}, {Value: -997}, {Value: 3}, {Value: 999}, nil}
			adj := adjs[(fi+n)%len(adjs)]
			c, err := cch.InsertContainer(&nri.Container{Id: id, PodSandboxId: "p", Name: "c", State: nri.ContainerState_CONTAINER_CREATED,
				Linux: &nri.LinuxContainer{Resources: encode(req, 2*req), OomScoreAdj: adj}})
			if err != nil {
				t.Fatalf("%v", err)
			}
			got := c.GetResourceRequirements()
			gr, gl := got.Requests.Cpu().MilliValue(), got.Limits.Cpu().MilliValue()
			tol := int64(1)
			if kubernetes.MilliCPUToShares(req) == kubernetes.MinShares {
				tol = 2
			}
			in := fmt.Sprintf("through-cache:%s:req=%d:lim=%d:oomadj=%v", hist, req, 2*req, adj.GetValue())
			if adj == nil {
				in += "(absent)"
			}
			if d := gr - req; d > tol || d < -tol || (req%125 == 0 && d != 0) {
				w.Report(mc.Violation{Property: "C20", Oracle: "cache-request-reconstruction", Signature: "cache-request-reconstruction:" + hist, Scenario: "cache", Trace: []string{in},
					Detail: fmt.Sprintf("container inserted with cpu.shares for %dm reports a request of %dm", req, gr)})
			}
			if 2*req >= 10 && gl != 2*req {
				w.Report(mc.Violation{Property: "C20", Oracle: "cache-limit-reconstruction", Signature: "cache-limit-reconstruction:" + hist, Scenario: "cache", Trace: []string{in},
					Detail: fmt.Sprintf("container inserted with quota/period for %dm reports a limit of %dm", 2*req, gl)})
			}
			w.Res.Evaluations++
			w.Res.Nontrivial++
			cch.DeleteContainer(id)
			if prevID != "" {
				cch.DeleteContainer(prevID)
			}
		}
	}
	cch.Save()
}
