//go:build verif

package cache

import (
	"fmt"
	"testing"

	nri "github.com/containerd/nri/pkg/api"
	corev1 "k8s.io/api/core/v1"

	"github.com/containers/nri-plugins/pkg/kubernetes"
	logger "github.com/containers/nri-plugins/pkg/log"
	"github.com/containers/nri-plugins/pkg/verif/mc"
)

// The cache's reconstruction of requirements from the kubelet's cgroup encoding.
func TestVerifC20Cache(t *testing.T) {
	logger.SetLevel(logger.LevelPanic)
	w := mc.NewWorker(t, "C20")
	defer w.Finish()
	if w.ReplayV != nil {
		return
	}
	kubernetes.SetMemoryCapacity(32 << 30)
	check := func(qos corev1.PodQOSClass, req, lim int64) {
		r := &nri.LinuxResources{Cpu: &nri.LinuxCPU{
			Shares: nri.UInt64(kubernetes.MilliCPUToShares(req)),
		}}
		if lim > 0 {
			q, p := kubernetes.MilliCPUToQuota(lim)
			r.Cpu.Quota = nri.Int64(q)
			r.Cpu.Period = nri.UInt64(uint64(p))
		}
		got := estimateResourceRequirements(r, qos, 500)
		gr := got.Requests.Cpu().MilliValue()
		gl := got.Limits.Cpu().MilliValue()
		in := fmt.Sprintf("%s:req=%d:lim=%d", qos, req, lim)
		tol := int64(1)
		if kubernetes.MilliCPUToShares(req) == kubernetes.MinShares {
			tol = 2
		}
		if d := gr - req; d > tol || d < -tol || (req%125 == 0 && d != 0) {
			w.Report(mc.Violation{Property: "C20", Oracle: "cache-request-reconstruction", Scenario: "cache", Trace: []string{in},
				Detail: fmt.Sprintf("request %dm reconstructed as %dm", req, gr)})
		}
		want := lim
		if qos == corev1.PodQOSGuaranteed {
			want = gr // Guaranteed: limit == request by definition
		}
		if lim >= 10 && gl != want {
			w.Report(mc.Violation{Property: "C20", Oracle: "cache-limit-reconstruction", Scenario: "cache", Trace: []string{in},
				Detail: fmt.Sprintf("limit %dm reconstructed as %dm", lim, gl)})
		}
		w.Res.Evaluations++
		if req > 2 {
			w.Res.Nontrivial++
		}
	}
	idx := 0
	for m := int64(0); m <= 256000; m++ {
		if w.Mine(idx) {
			check(corev1.PodQOSGuaranteed, m, m)
			check(corev1.PodQOSBurstable, m, 0)
			check(corev1.PodQOSBurstable, m/2, m)
			check(corev1.PodQOSBestEffort, 0, m)
		}
		idx++
	}
	w.Sample(map[string]any{"qos": "Burstable", "request_mCPU": 1375, "limit_mCPU": 2750})
}
