//go:build verif

package cache

// C15, free-running corroboration pass for the fetch rendezvous: the bodies of TestVerifC15Fetch run with real goroutines
// and no scheduler in a binary built with -race, so that unsynchronised accesses between the scheduling points of the
// exhaustive stage (the fetch goroutine storing its result while a handler works on the same pod) are reported by the
// race detector. It samples schedules - it decides nothing; a report is a violation, silence adds no coverage.

import (
	"fmt"
	"os"
	"path/filepath"
	"regexp"
	"runtime"
	"sort"
	"strings"
	"sync"
	"testing"
	"time"

	nri "github.com/containerd/nri/pkg/api"
	podresv1 "k8s.io/kubelet/pkg/apis/podresources/v1"

	"github.com/containers/nri-plugins/pkg/agent/podresapi"
	logger "github.com/containers/nri-plugins/pkg/log"
	"github.com/containers/nri-plugins/pkg/verif/mc"
)

var c15RaceFrame = regexp.MustCompile(`(?m)^  (\S+)\(\)$`)

func TestVerifC15FetchRace(t *testing.T) {
	logger.SetLevel(logger.LevelPanic)
	w := mc.NewWorker(t, "C15")
	defer w.Finish()
	w.Replayer = nil
	if w.ReplayV != nil {
		return // sampled schedules cannot be replayed; the report itself is the artefact
	}
	logBase := os.Getenv("VERIF_RACE_LOG")
	scratch := os.Getenv("VERIF_SCRATCH")
	if scratch == "" {
		scratch = t.TempDir()
	}
	dir := filepath.Join(scratch, "c15-fetchrace")
	iters := 100
	if w.Thorough() {
		iters = 1000
	}
	readReports := func() []string {
		var reps []string
		files, _ := filepath.Glob(logBase + ".*")
		for _, f := range files {
			data, _ := os.ReadFile(f)
			for _, blk := range strings.Split(string(data), "==================") {
				if strings.Contains(blk, "WARNING: DATA RACE") {
					reps = append(reps, blk)
				}
			}
			os.Truncate(f, 0)
		}
		return reps
	}
	for _, mode := range []string{"deliver", "close-empty", "deliver-then-insert-container"} {
		for it := 0; it < iters; it++ {
			os.RemoveAll(dir)
			cch, err := NewCache(Options{CacheDir: dir})
			if err != nil {
				t.Fatal(err)
			}
			ch := make(chan *podresapi.PodResources, 1)
			delivered := &podresapi.PodResources{PodResources: &podresv1.PodResources{Name: "pod0", Namespace: "ns",
				Containers: []*podresv1.ContainerResources{{Name: "c0", CpuIds: []int64{1, 2}}}}}
			nriPod := &nri.PodSandbox{Id: "p0", Name: "pod0", Namespace: "ns", Linux: &nri.LinuxPodSandbox{CgroupParent: "/kubepods/pod0"}}
			var wg sync.WaitGroup
			start := make(chan struct{})
			wg.Add(2)
			go func() { // a request handler (the caller holds the resource manager lock)
				defer wg.Done()
				<-start
				p := cch.InsertPod(nriPod, ch)
				p.GetPodResources()
				if mode == "deliver-then-insert-container" {
					cch.InsertContainer(&nri.Container{Id: "c0", PodSandboxId: "p0", Name: "c0"})
				}
			}()
			go func() { // the agent's reply
				defer wg.Done()
				<-start
				for k := 0; k < it%7; k++ {
					runtime.Gosched()
				}
				if mode == "close-empty" {
					close(ch)
				} else {
					ch <- delivered
				}
			}()
			close(start)
			finished := make(chan struct{})
			go func() { wg.Wait(); close(finished) }()
			select {
			case <-finished:
			case <-time.After(120 * time.Second):
				// microseconds of work: two minutes without an end is a request that never returns
				w.Report(mc.Violation{Property: "C15", Oracle: "stuck", Signature: "fetch:free-running-request-stuck", Scenario: "fetch-free-running/" + mode,
					Trace: []string{fmt.Sprintf("free-running, iteration %d", it)}, Detail: "InsertPod / GetPodResources / InsertContainer did not return within 120 s of the fetch being answered (" + mode + ")"})
				w.Res.Outcomes = 1
				return
			}
			w.Res.Evaluations++
			w.Res.Nontrivial++
			for _, rep := range readReports() {
				var frames []string
				for _, blk := range strings.Split(rep, "\n\n") {
					// one frame per access: the innermost function of this repository in each of the two stacks
					if !strings.Contains(blk, " by goroutine ") && !strings.Contains(blk, " by main goroutine") {
						continue
					}
					for _, m := range c15RaceFrame.FindAllStringSubmatch(blk, -1) {
						if fn := m[1]; strings.Contains(fn, "nri-plugins/") {
							frames = append(frames, fn[strings.LastIndex(fn, "/")+1:])
							break
						}
					}
				}
				sort.Strings(frames)
				sig := "fetch:data-race:" + strings.Join(frames, "~")
				if len(rep) > 3000 {
					rep = rep[:3000]
				}
				w.Report(mc.Violation{Property: "C15", Oracle: "race-detector", Signature: sig, Scenario: "fetch-free-running/" + mode,
					Trace: []string{fmt.Sprintf("free-running, iteration %d", it)}, Detail: rep})
			}
		}
		w.Res.Scenarios++
	}
	w.Res.Outcomes = 1
	os.RemoveAll(dir)
}
