//go:build verif

package cache

import (
	"fmt"
	"testing"

	nri "github.com/containerd/nri/pkg/api"

	logger "github.com/containers/nri-plugins/pkg/log"
	"github.com/containers/nri-plugins/pkg/verif/mc"
)

// C18 for the resource-policy cache: GetEffectiveAnnotation = container-specific, else pod-wide, else bare key.
func TestVerifC18(t *testing.T) {
	logger.SetLevel(logger.LevelPanic)
	w := mc.NewWorker(t, "C18")
	defer w.Finish()
	if w.ReplayV != nil {
		w.Replayer = nil
	}
	dir := t.TempDir()
	cch, err := NewCache(Options{CacheDir: dir})
	if err != nil {
		t.Fatalf("%v", err)
	}
	names := []string{"c", "cc", "c-c", "pod", "c0", "xc"}
	keys := []string{"prefer-shared-cpus.resource-policy.nri.io", "memory-type.resource-policy.nri.io"}
	outcomes := map[string]bool{}
	n := 0
	for _, key := range keys {
		for ti, target := range names {
			var others []string
			for oi, o := range names {
				if oi != ti {
					others = append(others, o)
				}
			}
			// forms: 0 = for target, 1..len(others) = for another container, then pod-wide, bare; also the same forms of a decoy key
			nforms := 1 + len(others) + 2
			// empty: which of the three forms that matter (container-specific, pod-wide, bare) carry an empty value -
			// a present-but-empty annotation is still present and must win over lower-precedence forms
			for maskE := 0; maskE < (1<<uint(nforms))*8; maskE++ {
				mask, empty := maskE>>3, maskE&7
				val := func(bit int, v string) string {
					if empty&bit != 0 {
						return ""
					}
					return v
				}
				if (empty&1 != 0 && mask&1 == 0) || (empty&2 != 0 && mask&(1<<uint(nforms-2)) == 0) || (empty&4 != 0 && mask&(1<<uint(nforms-1)) == 0) {
					continue
				}
				ann := map[string]string{}
				expect, present := "", false
				if mask&1 != 0 {
					ann[key+"/container."+target] = val(1, "for-target")
				}
				for i, o := range others {
					if mask&(1<<uint(1+i)) != 0 {
						ann[key+"/container."+o] = "for-" + o
					}
				}
				if mask&(1<<uint(nforms-2)) != 0 {
					ann[key+"/pod"] = val(2, "pod-wide")
				}
				if mask&(1<<uint(nforms-1)) != 0 {
					ann[key] = val(4, "bare")
				}
				ann[keys[0]+"x/pod"] = "decoy"
				ann["x"+key+"/container."+target] = "decoy"
				switch {
				case mask&1 != 0:
					expect, present = val(1, "for-target"), true
				case mask&(1<<uint(nforms-2)) != 0:
					expect, present = val(2, "pod-wide"), true
				case mask&(1<<uint(nforms-1)) != 0:
					expect, present = val(4, "bare"), true
				}
				p := cch.InsertPod(&nri.PodSandbox{Id: fmt.Sprintf("p%d", n), Name: "pod", Namespace: "ns", Annotations: ann}, nil)
				got, ok := p.GetEffectiveAnnotation(key, target)
				if n%37 == 0 {
					// the same lookup on the pod as a restarted plugin restores it from the state directory
					if re, err := NewCache(Options{CacheDir: dir}); err != nil {
						t.Fatalf("%v", err)
					} else if rp, found := re.LookupPod(p.GetID()); !found {
						w.Report(mc.Violation{Property: "C18", Oracle: "effective-annotation", Signature: "cache-effective-annotation:pod-not-restored", Scenario: "cache", Detail: "the pod is not in the reloaded cache"})
					} else if rgot, rok := rp.GetEffectiveAnnotation(key, target); rok != present || rgot != expect {
						w.Report(mc.Violation{Property: "C18", Oracle: "effective-annotation", Signature: "cache-effective-annotation:after-restart", Scenario: "cache",
							Trace:  []string{fmt.Sprintf("key=%s container=%s annotations=%v, then restart", key, target, ann)},
							Detail: fmt.Sprintf("after a restart GetEffectiveAnnotation(%q, %q) = (%q, %v), expected (%q, %v)", key, target, rgot, rok, expect, present)})
					}
					w.Res.Evaluations++
				}
				cch.DeletePod(p.GetID())
				n++
				w.Res.Evaluations++
				if mask != 0 {
					w.Res.Nontrivial++
				}
				outcomes[fmt.Sprint(got, ok)] = true
				if ok != present || got != expect {
					w.Report(mc.Violation{Property: "C18", Oracle: "effective-annotation", Signature: "cache-effective-annotation", Scenario: "cache",
						Trace:  []string{fmt.Sprintf("key=%s container=%s annotations=%v", key, target, ann)},
						Detail: fmt.Sprintf("GetEffectiveAnnotation(%q, %q) = (%q, %v), expected (%q, %v)", key, target, got, ok, expect, present)})
				}
			}
		}
	}
	w.Res.Outcomes = int64(len(outcomes))
	w.Sample(map[string]any{"key": keys[0], "container": "c", "annotations": map[string]string{keys[0] + "/container.cc": "for-cc", keys[0] + "/pod": "pod-wide"}, "expected": "pod-wide"})
}
