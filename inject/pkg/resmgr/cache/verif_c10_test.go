//go:build verif

package cache

// C10: (1) the persisted cache round-trips for every content reached by a
// bounded history of cache operations; (2) at every crash point and every
// single write failure of every save in the history, the cache file on disk is
// the previous or the new complete snapshot and loads; (3) unsafe files and
// directories are refused.

import (
	"encoding/json"
	"fmt"
	"os"
	"path/filepath"
	"sort"
	"strings"
	"syscall"
	"testing"

	nri "github.com/containerd/nri/pkg/api"
	podresv1 "k8s.io/kubelet/pkg/apis/podresources/v1"

	"github.com/containers/nri-plugins/pkg/agent/podresapi"

	logger "github.com/containers/nri-plugins/pkg/log"
	"github.com/containers/nri-plugins/pkg/utils/cpuset"
	"github.com/containers/nri-plugins/pkg/verif/mc"
	"github.com/containers/nri-plugins/pkg/verif/vos"
)

const affAnn = `resource-policy.nri.io/affinity`

func c10Pod(i int) *nri.PodSandbox {
	ann := map[string]string{"prefer-shared-cpus.resource-policy.nri.io/pod": "true"}
	if i == 0 {
		ann[affAnn] = "c0:\n  - scope:\n      key: namespace\n      operator: In\n      values: [ ns0 ]\n    match:\n      key: name\n      operator: Matches\n      values: [ \"c*\" ]\n    weight: 7\n"
	}
	return &nri.PodSandbox{Id: fmt.Sprintf("p%d", i), Name: fmt.Sprintf("pod%d", i), Uid: fmt.Sprintf("uid%d", i), Namespace: fmt.Sprintf("ns%d", i),
		Labels: map[string]string{"app": "x"}, Annotations: ann,
		Linux: &nri.LinuxPodSandbox{CgroupParent: []string{"/kubepods/burstable/pod0", "/kubepods/pod1"}[i%2]}}
}

func c10Ctr(i int) *nri.Container {
	c := &nri.Container{Id: fmt.Sprintf("c%d", i), PodSandboxId: fmt.Sprintf("p%d", i%2), Name: fmt.Sprintf("c%d", i),
		State: nri.ContainerState_CONTAINER_CREATED, Labels: map[string]string{"l": "v"}, Args: []string{"a", "b"},
		Env: []string{"K=V"}}
	switch i {
	case 0:
		c.Linux = &nri.LinuxContainer{Resources: &nri.LinuxResources{
			Cpu:    &nri.LinuxCPU{Shares: nri.UInt64(1536), Quota: nri.Int64(200000), Period: nri.UInt64(100000), Cpus: "0-1", Mems: "0"},
			Memory: &nri.LinuxMemory{Limit: nri.Int64(1 << 30)}},
			OomScoreAdj: &nri.OptionalInt{Value: 900}}
		c.Mounts = []*nri.Mount{{Destination: "/data", Source: "/var/lib/data", Type: "bind", Options: []string{"rw"}}}
	case 1:
		// no optional sub-messages at all
	case 2:
		c.Linux = &nri.LinuxContainer{Resources: &nri.LinuxResources{Cpu: &nri.LinuxCPU{Shares: nri.UInt64(2)}}}
		c.Linux.Devices = []*nri.LinuxDevice{{Path: "/dev/null", Type: "c", Major: 1, Minor: 3}}
	}
	return c
}

type c10Entry struct{ V map[string]int }

func (e *c10Entry) Set(v interface{}) {
	switch x := v.(type) {
	case c10Entry:
		*e = x
	case *c10Entry:
		*e = *x
	}
}
func (e *c10Entry) Get() interface{} { return *e }

// c10Apply applies one operation to the cache.
func c10Apply(cch Cache, op string) {
	f := strings.Split(op, ":")
	ctr := func() Container {
		c, ok := cch.LookupContainer(f[1])
		if !ok {
			return nil
		}
		return c
	}
	switch f[0] {
	case "pod":
		var i int
		fmt.Sscanf(f[1], "%d", &i)
		cch.InsertPod(c10Pod(i), nil)
	case "ctr":
		var i int
		fmt.Sscanf(f[1], "%d", &i)
		cch.InsertContainer(c10Ctr(i))
	case "creating":
		var i int
		fmt.Sscanf(f[1], "%d", &i)
		cch.InsertContainer(c10Ctr(i), WithContainerState(ContainerStateCreating))
	case "podres":
		// a pod whose resources are fetched asynchronously from the kubelet pod resources API (as RunPodSandbox does):
		// the result arrives after InsertPod - and after the save InsertPod makes - has returned
		var i int
		fmt.Sscanf(f[1], "%d", &i)
		ch := make(chan *podresapi.PodResources, 1)
		p := cch.InsertPod(c10Pod(i), ch)
		ch <- &podresapi.PodResources{PodResources: &podresv1.PodResources{Name: fmt.Sprintf("pod%d", i), Namespace: "ns",
			Containers: []*podresv1.ContainerResources{{Name: fmt.Sprintf("c%d", i), CpuIds: []int64{1, 2}}}}}
		p.GetPodResources() // returns once the fetch has completed
	case "reset-policy":
		cch.ResetActivePolicy()
		cch.SetActivePolicy("verif")
	case "refresh":
		// what Synchronize does: the runtime lists pod p0 and container c0 only; everything else is purged
		cch.RefreshPods([]*nri.PodSandbox{c10Pod(0)}, nil)
		cch.RefreshContainers([]*nri.Container{c10Ctr(0)})
		cch.Save()
	case "delpod":
		cch.DeletePod(f[1])
	case "delctr":
		cch.DeleteContainer(f[1])
	case "pin":
		if c := ctr(); c != nil {
			c.SetCpusetCpus("2-3")
			c.SetCpusetMems("1")
			c.SetCPUShares(2048)
			c.SetMemoryLimit(2 << 30)
		}
	case "state":
		if c := ctr(); c != nil {
			c.UpdateState(ContainerStateRunning)
		}
	case "tag":
		if c := ctr(); c != nil {
			c.SetTag("k", "v")
			c.SetTag("gone", "x")
			c.DeleteTag("gone")
		}
	case "upd":
		if c := ctr(); c != nil {
			c.SetResourceUpdates(&nri.LinuxResources{Cpu: &nri.LinuxCPU{Shares: nri.UInt64(3072), Quota: nri.Int64(300000), Period: nri.UInt64(100000)}})
		}
	case "classes":
		if c := ctr(); c != nil {
			c.SetRDTClass("gold")
			c.SetBlockIOClass("slow")
		}
	case "aff":
		if c := ctr(); c != nil {
			c.GetAffinity() // parses and memoizes the pod's affinity annotation
		}
	case "entry-string":
		cch.SetPolicyEntry("s", "hello")
	case "entry-map":
		cch.SetPolicyEntry("m", map[string]string{"a": "1", "b": "2"})
	case "entry-cpuset":
		cch.SetPolicyEntry("cs", cpuset.MustParse("1-3,7"))
	case "entry-cacheable":
		cch.SetPolicyEntry("ca", Cacheable(&c10Entry{V: map[string]int{"x": 7}}))
	case "save":
		cch.Save()
	}
}

var c10Ops = []string{"pod:0", "pod:1", "podres:1", "ctr:0", "ctr:1", "creating:2", "pin:c0", "pin:c1", "state:c0", "tag:c0", "upd:c0", "classes:c1", "aff:c0",
	"entry-string", "entry-map", "entry-cpuset", "entry-cacheable", "delctr:c0", "delpod:p1", "restart", "reset-policy", "refresh"}

// c10Render renders everything the property lists, through public getters only.
func c10Render(cch Cache) string {
	out := map[string]any{}
	pods := cch.GetPods()
	sort.Slice(pods, func(i, j int) bool { return pods[i].GetID() < pods[j].GetID() })
	for _, p := range pods {
		ann, _ := p.GetAnnotation(affAnn)
		lbl, _ := p.GetLabel("app")
		eff, effOK := p.GetEffectiveAnnotation("prefer-shared-cpus.resource-policy.nri.io", "c0")
		aff, affErr := p.GetContainerAffinity("c0")
		affS := []string{}
		for _, a := range aff {
			affS = append(affS, a.String())
		}
		pres, _ := json.Marshal(p.GetPodResources())
		out["pod/"+p.GetID()] = []any{p.GetUID(), p.GetName(), p.GetNamespace(), string(p.GetQOSClass()), p.GetCgroupParent(), ann, lbl, eff, effOK, affS, affErr == nil, string(pres)}
	}
	ctrs := cch.GetContainers()
	sort.Slice(ctrs, func(i, j int) bool { return ctrs[i].GetID() < ctrs[j].GetID() })
	for _, c := range ctrs {
		tag, tagOK := c.GetTag("k")
		_, goneOK := c.GetTag("gone")
		upd, updOK := c.GetResourceUpdates()
		lbl, _ := c.GetLabel("l")
		env, _ := c.GetEnv("K")
		req, _ := json.Marshal(c.GetResourceRequirements())
		updJ, _ := json.Marshal(upd)
		mounts, _ := json.Marshal(c.GetMounts())
		devs, _ := json.Marshal(c.GetDevices())
		hints, _ := json.Marshal(c.GetTopologyHints())
		_, podOK := c.GetPod()
		cres := "-"
		if podOK {
			d, _ := json.Marshal(c.GetPodResources())
			cres = string(d)
		}
		var aff []*Affinity
		var affErr error
		if podOK {
			// GetAffinity dereferences the pod; for a container whose pod is gone no handler reaches it
			aff, affErr = c.GetAffinity()
		}
		affS := []string{}
		for _, a := range aff {
			affS = append(affS, a.String())
		}
		out["ctr/"+c.GetID()] = []any{c.GetPodID(), c.GetName(), c.GetNamespace(), int(c.GetState()), string(c.GetQOSClass()), c.GetArgs(), lbl, env,
			c.GetCpusetCpus(), c.GetCpusetMems(), c.GetCPUShares(), c.GetCPUQuota(), c.GetCPUPeriod(), c.GetMemoryLimit(), c.GetMemorySwap(),
			string(req), updOK, string(updJ), tag, tagOK, goneOK, string(mounts), string(devs), string(hints), c.GetRDTClass(), c.GetBlockIOClass(),
			affS, affErr == nil, podOK, cres}
	}
	var s string
	if cch.GetPolicyEntry("s", &s) {
		out["entry/s"] = s
	}
	m := map[string]string{}
	if cch.GetPolicyEntry("m", &m) {
		out["entry/m"] = m
	}
	var cs cpuset.CPUSet
	if cch.GetPolicyEntry("cs", &cs) {
		out["entry/cs"] = cs.String()
	}
	ce := &c10Entry{}
	if cch.GetPolicyEntry("ca", ce) {
		out["entry/ca"] = ce.V
	}
	out["policy"] = cch.GetActivePolicy()
	d, _ := json.Marshal(out)
	return string(d)
}

func c10Load(dir string) (string, error) {
	var cch Cache
	var err error
	p, msg, where := mc.Guard(func() { cch, err = NewCache(Options{CacheDir: dir}) })
	if p {
		return "", fmt.Errorf("panic while loading: %s at %s", msg, where)
	}
	if err != nil {
		return "", err
	}
	var r string
	p, msg, where = mc.Guard(func() { r = c10Render(cch) })
	if p {
		return "", fmt.Errorf("panic while reading the loaded cache: %s at %s", msg, where)
	}
	return r, nil
}

// c10LoadFile loads a state directory that contains exactly the given cache file content (and optional leftovers).
func c10LoadFile(tmp string, content []byte, exists bool, leftovers map[string][]byte) (string, error) {
	os.RemoveAll(tmp)
	os.MkdirAll(filepath.Join(tmp, "containers"), 0o755)
	os.Chmod(tmp, 0o710)
	if exists {
		os.WriteFile(filepath.Join(tmp, "cache"), content, 0o644)
	}
	for name, data := range leftovers {
		os.WriteFile(filepath.Join(tmp, name), data, 0o644)
	}
	return c10Load(tmp)
}

// c10Snap is the content of the regular files at the top level of the state directory.
type c10Snap map[string][]byte

func c10SnapDir(dir string) c10Snap {
	sn := c10Snap{}
	ents, _ := os.ReadDir(dir)
	for _, e := range ents {
		if e.Type().IsRegular() {
			if data, err := os.ReadFile(filepath.Join(dir, e.Name())); err == nil {
				sn[e.Name()] = data
			}
		}
	}
	return sn
}

func (a c10Snap) equal(b c10Snap) bool {
	if len(a) != len(b) {
		return false
	}
	for k, v := range a {
		if w, ok := b[k]; !ok || string(v) != string(w) {
			return false
		}
	}
	return true
}

// c10Rec records what one operation did to the state directory.
type c10Rec struct {
	snaps       []c10Snap
	legal       [][]byte // complete snapshots: the cache file before the operation and after every rename onto it
	legalAbsent bool     // there was no cache file before the operation
}

func (r *c10Rec) add(sn c10Snap) {
	if n := len(r.snaps); n > 0 && r.snaps[n-1].equal(sn) {
		return
	}
	r.snaps = append(r.snaps, sn)
}

func c10Materialise(tmp string, sn c10Snap) {
	os.RemoveAll(tmp)
	os.MkdirAll(filepath.Join(tmp, "containers"), 0o755)
	os.Chmod(tmp, 0o710)
	for name, data := range sn {
		os.WriteFile(filepath.Join(tmp, name), data, 0o644)
	}
}

// c10Run executes a history, judging round trip and crash safety of every save.
func c10Run(w *mc.Worker, scratch string, trace []string, judge bool) (key string, viols []mc.Violation) {
	dir := filepath.Join(scratch, "c10-state")
	tmp := filepath.Join(scratch, "c10-crash")
	os.RemoveAll(dir)
	os.MkdirAll(dir, 0o710)
	viol := func(oracle, sig, format string, args ...any) {
		viols = append(viols, mc.Violation{Property: "C10", Oracle: oracle, Signature: sig, Scenario: "cache", Trace: append([]string{}, trace...), Detail: fmt.Sprintf(format, args...)})
	}
	vos.Reset()
	vos.Before, vos.After = nil, nil
	cch, err := NewCache(Options{CacheDir: dir})
	if err != nil {
		viol("harness", "harness-newcache", "%v", err)
		return "", viols
	}
	file := filepath.Join(dir, "cache")
	var other []string
	// Crash model on the REAL state directory: a snapshot of its files is taken before and after every intercepted filesystem
	// step of the operation being judged (steps the code makes through an *os.File it opened are seen as the difference
	// between two snapshots). The very first save of a fresh directory (SetActivePolicy) is judged like any other.
	var rec *c10Rec
	defer func() { vos.Before, vos.After = nil, nil }()
	vos.Before = func(op *vos.Op) {
		if rec != nil {
			rec.add(c10SnapDir(dir))
		}
		// the cache file itself may only ever be replaced by rename
		if judge && op.Path == file && op.Kind != "rename" {
			other = append(other, op.Kind)
		}
	}
	vos.After = func(op *vos.Op) {
		if rec != nil {
			sn := c10SnapDir(dir)
			rec.add(sn)
			if op.Kind == "rename" && op.To == file {
				if data, ok := sn["cache"]; ok {
					rec.legal = append(rec.legal, data)
				}
			}
		}
	}
	startRec := func() {
		rec = &c10Rec{}
		s0 := c10SnapDir(dir)
		rec.add(s0)
		if data, ok := s0["cache"]; ok {
			rec.legal = append(rec.legal, data)
		} else {
			rec.legalAbsent = true
		}
	}
	if judge && len(trace) == 1 {
		startRec()
	}
	cch.SetActivePolicy("verif")
	if rec != nil {
		rec.add(c10SnapDir(dir))
		c10JudgeCrashes(w, tmp, rec, viol)
		rec = nil
	}
	for i, op := range trace {
		if judge && i == len(trace)-1 && op != "restart" {
			startRec()
		}
		p, msg, where := mc.Guard(func() {
			if op == "restart" {
				// the plugin process ends at this request boundary and a new one loads the state directory; nothing is
				// rendered (rendering reads every policy entry, which itself changes what the new instance has decoded)
				n, err := NewCache(Options{CacheDir: dir})
				if err != nil {
					viol("restart-fails", "restart-fails", "NewCache on the state directory fails: %v", err)
					return
				}
				cch = n
				return
			}
			c10Apply(cch, op)
		})
		if p {
			if i == len(trace)-1 {
				viols = append(viols, mc.Violation{Property: "C14", Oracle: "panic", Signature: "panic@" + where + ":cache-" + strings.Split(op, ":")[0], Scenario: "cache", Trace: trace, Detail: msg})
			}
			vos.Before, vos.After = nil, nil
			return "panic:" + strings.Join(trace[:i+1], ","), viols
		}
		if rec != nil {
			// --- crash points of everything the last operation did to the state directory
			rec.add(c10SnapDir(dir))
			c10JudgeCrashes(w, tmp, rec, viol)
			rec = nil
		}
	}
	vos.Before, vos.After = nil, nil
	live := ""
	if judge {
		for _, k := range other {
			viol("cache-file-not-replaced-by-rename", "cache-file-not-replaced-by-rename:"+k, "the cache file was touched by a %q step; it may only ever be replaced by rename", k)
		}
		// --- round trip: the state directory as it is now must load to the cache at its last successful save
		pSave, pmsg, pwhere := mc.Guard(func() { err = cch.Save() })
		if pSave {
			viol("save-panics", "save-panics@"+pwhere, "%s", pmsg)
		} else if err != nil {
			viol("save-fails", "save-fails", "Save: %v", err)
		} else {
			live = c10Render(cch)
			got, lerr := c10Load(dir)
			if lerr != nil {
				viol("reload-fails", "reload-fails", "reloading the saved cache fails: %v", lerr)
			} else if got != live {
				viol("roundtrip-differs", "roundtrip-differs:"+c10DiffKey(live, got), "reloaded cache differs from the saved one:\n saved   %s\n reloaded %s", live, got)
			}
		}
		// --- single write failures of a save
		c10JudgeFaults(w, cch, tmp, file, viol)
	}
	live = c10Render(cch)
	return mc.Hash(live) + restartTail(trace), viols
}

// restartTail distinguishes states by what happened since the last restart: a reloaded instance holds entries it has not
// decoded yet, which rendering cannot show (it decodes them), so histories are only merged when that part agrees too.
func restartTail(trace []string) string {
	for i := len(trace) - 1; i >= 0; i-- {
		if trace[i] == "restart" {
			return "|restart+" + strings.Join(trace[i+1:], ",")
		}
	}
	return ""
}

func c10DiffKey(a, b string) string {
	var ma, mb map[string]json.RawMessage
	json.Unmarshal([]byte(a), &ma)
	json.Unmarshal([]byte(b), &mb)
	keys := []string{}
	for k := range ma {
		if string(ma[k]) != string(mb[k]) {
			keys = append(keys, strings.Split(k, "/")[0])
		}
	}
	for k := range mb {
		if _, ok := ma[k]; !ok {
			keys = append(keys, strings.Split(k, "/")[0])
		}
	}
	sort.Strings(keys)
	if len(keys) == 0 {
		return "?"
	}
	return keys[0]
}

// c10JudgeCrashes: the plugin may die at any point of the operation. Crash states are every recorded directory snapshot and,
// between two consecutive snapshots, every sequential-overwrite prefix of each file whose content changed (new[:k] + old[k:]:
// exactly what a killed write leaves, whether or not the file was truncated first). Every crash state must (1) load, (2) load
// to a complete snapshot - the cache as it was before the operation or as some completed save left it -, and (3) be a state
// the plugin can go on from: a new instance on that directory performs one more (shrinking) operation and the directory must
// then load to that instance's own view.
func c10JudgeCrashes(w *mc.Worker, tmp string, rec *c10Rec, viol func(oracle, sig, format string, args ...any)) {
	legal := map[string]bool{}
	if rec.legalAbsent {
		if r, err := c10LoadFile(tmp, nil, false, nil); err == nil {
			legal[r] = true
		}
	}
	for _, data := range rec.legal {
		r, err := c10LoadFile(tmp, data, true, nil)
		if err != nil {
			viol("snapshot-does-not-load", "snapshot-does-not-load", "a complete snapshot does not load: %v", err)
			return
		}
		legal[r] = true
	}
	check := func(point string, sn c10Snap, goOn bool) {
		w.Res.Evaluations++
		w.Count("crash_points", 1)
		c10Materialise(tmp, sn)
		got, err := c10Load(tmp)
		if err != nil {
			viol("crash-leaves-unloadable-cache", "crash-leaves-unloadable-cache", "crash %s: the state directory does not load: %v (cache file %d bytes)", point, err, len(sn["cache"]))
			return
		}
		if !legal[got] {
			viol("crash-leaves-partial-cache", "crash-leaves-partial-cache", "crash %s: the loaded cache is neither the previous nor a newly saved snapshot", point)
			return
		}
		if !goOn {
			return
		}
		// (3) go on from the crash state
		w.Count("crash_points_continued", 1)
		c10Materialise(tmp, sn)
		var live string
		var serr error
		p, msg, _ := mc.Guard(func() {
			n, err := NewCache(Options{CacheDir: tmp})
			if err != nil {
				serr = err
				return
			}
			// a shrinking change first (the save that follows is shorter than anything left behind), then a plain save
			if pods := n.GetPods(); len(pods) > 0 {
				n.DeletePod(pods[0].GetID())
			} else if ctrs := n.GetContainers(); len(ctrs) > 0 {
				n.DeleteContainer(ctrs[0].GetID())
			}
			serr = n.Save()
			live = c10Render(n)
		})
		if p || serr != nil {
			viol("crash-state-not-continuable", "crash-state-not-continuable", "crash %s: a new instance on that directory cannot go on: %v %s", point, serr, msg)
			return
		}
		if got2, err := c10Load(tmp); err != nil {
			viol("save-after-crash-unloadable", "save-after-crash-unloadable", "crash %s, restart, one more change and a successful save: the state directory does not load: %v", point, err)
		} else if got2 != live {
			viol("save-after-crash-differs", "save-after-crash-differs", "crash %s, restart, one more change and a successful save: the reloaded cache differs from the saved one", point)
		}
	}
	for i, sn := range rec.snaps {
		leftovers := false
		for name := range sn {
			if name != "cache" {
				leftovers = true
			}
		}
		check(fmt.Sprintf("at step boundary %d", i), sn, leftovers)
		if i+1 == len(rec.snaps) {
			break
		}
		next := rec.snaps[i+1]
		for name, nb := range next {
			ob := sn[name]
			if string(ob) == string(nb) || len(nb) == 0 {
				continue
			}
			// a file that vanished between the two snapshots and had exactly this content was renamed onto this name: atomic
			moved := false
			for on, od := range sn {
				if _, still := next[on]; !still && string(od) == string(nb) {
					moved = true
				}
			}
			if moved {
				continue
			}
			for k := 1; k < len(nb); k++ {
				// every byte offset for the cache file itself; first, middle and last offsets for any other file (their
				// content cannot influence loading, only their length matters for what comes next)
				if name != "cache" && k != 1 && k != len(nb)/2 && k != len(nb)-1 {
					w.Count("crash_points_equivalent_not_reloaded", 1)
					continue
				}
				mid := c10Snap{}
				for n2, d2 := range sn {
					mid[n2] = d2
				}
				part := append([]byte{}, nb[:k]...)
				if len(ob) > k {
					part = append(part, ob[k:]...)
				}
				mid[name] = part
				check(fmt.Sprintf("within the write of %s between boundaries %d and %d at byte %d/%d", name, i, i+1, k, len(nb)), mid, true)
			}
		}
	}
}

// c10JudgeFaults makes each primitive step of a Save fail once: Save must report an error and the cache file must stay the previous snapshot.
func c10JudgeFaults(w *mc.Worker, cch Cache, tmp, file string, viol func(oracle, sig, format string, args ...any)) {
	pre, _ := os.ReadFile(file)
	// count steps of a clean save
	vos.Reset()
	cch.Save()
	n := vos.Steps()
	pre, _ = os.ReadFile(file)
	for k := 1; k <= n; k++ {
		for _, short := range []int{0, 1, len(pre) / 2} {
			vos.Reset()
			vos.FailAt, vos.FailShort = k, short
			var err error
			p, msg, _ := mc.Guard(func() { err = cch.Save() })
			vos.Reset()
			w.Res.Evaluations++
			w.Count("write_failures_injected", 1)
			if p {
				viol("save-panics-on-io-error", "save-panics-on-io-error", "Save panics when step %d fails: %s", k, msg)
				continue
			}
			post, rerr := os.ReadFile(file)
			if err == nil {
				viol("io-error-not-reported", "io-error-not-reported", "step %d of Save failed with EIO but Save returned nil", k)
			}
			if rerr != nil || string(post) != string(pre) {
				if _, lerr := c10LoadFile(tmp, post, rerr == nil, nil); lerr != nil {
					viol("io-error-corrupts-cache", "io-error-corrupts-cache", "after a failed step %d the cache file no longer loads: %v", k, lerr)
				} else {
					viol("io-error-changes-cache", "io-error-changes-cache", "after a failed step %d (Save error: %v) the cache file differs from the previous snapshot", k, err)
				}
			}
			if short == 0 && k != 2 {
				break
			}
		}
	}
	os.Remove(file + ".saving")
}

func TestVerifC10(t *testing.T) {
	logger.SetLevel(logger.LevelPanic)
	w := mc.NewWorker(t, "C10")
	defer w.Finish()
	scratch := os.Getenv("VERIF_SCRATCH")
	if scratch == "" {
		scratch = t.TempDir()
	}
	w.Replayer = func(sc string, trace []string) []mc.Violation {
		if sc == "permissions" {
			return c10Perm(w, scratch, trace[0])
		}
		_, v := c10Run(w, scratch, trace, true)
		return v
	}
	if w.ReplayV != nil {
		for _, v := range w.Replayer(w.ReplayV.Scenario, w.ReplayV.Trace) {
			t.Logf("REPLAY %s %s: %s", v.Property, v.Signature, v.Detail)
			w.Res.Violations = append(w.Res.Violations, v)
		}
		return
	}
	depth := 3
	if w.Thorough() {
		depth = 5
	}
	// shard by first operation
	for i, first := range c10Ops {
		if !w.Mine(i) {
			continue
		}
		ex := &mc.Explorer{W: w, Scenario: "cache", Depth: depth - 1, Run: func(tr []string) mc.Step {
			full := append([]string{first}, tr...)
			key, v := c10Run(w, scratch, full, true)
			return mc.Step{Key: key, Enabled: c10Ops, Violations: v, Nontrivial: strings.Contains(strings.Join(full, ","), "ctr"), Outcome: key}
		}}
		ex.Explore()
	}
	// permission matrix
	if w.Mine(len(c10Ops)) || w.Res.NShards == 1 {
		for _, target := range []string{"dir", "file", "containers"} {
			for _, kind := range []string{"regular", "dir", "symlink-file", "symlink-dir", "fifo"} {
				for mode := 0; mode < 512; mode++ {
					for _, v := range c10Perm(w, scratch, fmt.Sprintf("%s/%s/%o", target, kind, mode)) {
						w.Report(v)
					}
				}
			}
		}
	}
}

// c10Perm builds one (target, kind, mode) case and checks that it is refused iff it is a symlink, of the wrong type, or group/other writable.
func c10Perm(w *mc.Worker, scratch, spec string) []mc.Violation {
	f := strings.Split(spec, "/")
	target, kind := f[0], f[1]
	var mode uint32
	fmt.Sscanf(f[2], "%o", &mode)
	base := filepath.Join(scratch, "c10-perm")
	os.RemoveAll(base)
	os.MkdirAll(base, 0o755)
	dir := filepath.Join(base, "state")
	var path string
	wantDir := true
	switch target {
	case "dir":
		path = dir
	case "file":
		os.MkdirAll(dir, 0o710)
		path, wantDir = filepath.Join(dir, "cache"), false
	case "containers":
		os.MkdirAll(dir, 0o710)
		path = filepath.Join(dir, "containers")
	}
	realFile, realDir := filepath.Join(base, "real-file"), filepath.Join(base, "real-dir")
	os.WriteFile(realFile, []byte{}, 0o644)
	os.MkdirAll(realDir, 0o755)
	switch kind {
	case "regular":
		os.WriteFile(path, []byte{}, 0o600)
	case "dir":
		os.MkdirAll(path, 0o700)
	case "symlink-file":
		os.Symlink(realFile, path)
	case "symlink-dir":
		os.Symlink(realDir, path)
	case "fifo":
		syscall.Mkfifo(path, 0o600)
	}
	if !strings.HasPrefix(kind, "symlink") {
		os.Chmod(path, os.FileMode(mode))
	} else {
		os.Chmod(realFile, os.FileMode(mode))
		os.Chmod(realDir, os.FileMode(mode))
	}
	wrongType := (wantDir && kind != "dir") || (!wantDir && kind != "regular")
	wantRefused := strings.HasPrefix(kind, "symlink") || wrongType || mode&0o022 != 0
	var err error
	p, msg, where := mc.Guard(func() { _, err = NewCache(Options{CacheDir: dir}) })
	w.Res.Evaluations++
	w.Count("permission_cases", 1)
	if wantRefused {
		w.Res.Nontrivial++
	}
	os.Chmod(path, 0o700)
	mk := func(oracle, detail string) []mc.Violation {
		return []mc.Violation{{Property: "C10", Oracle: oracle, Signature: oracle + ":" + target + ":" + kind, Scenario: "permissions", Trace: []string{spec}, Detail: detail}}
	}
	if p {
		return mk("newcache-panics", fmt.Sprintf("%s: %s at %s", spec, msg, where))
	}
	if wantRefused && err == nil {
		return mk("unsafe-state-accepted", fmt.Sprintf("%s %s of kind %s with mode %04o was used instead of refused", target, path, kind, mode))
	}
	if !wantRefused && err != nil {
		return mk("safe-state-refused", fmt.Sprintf("%s of kind %s with mode %04o was refused: %v", target, kind, mode, err))
	}
	return nil
}
