//go:build verif

package cache

// C15, pod-resource LIST rendezvous: Synchronize starts an asynchronous LIST of all pods' resources
// (agent.GoListPodResources) and hands the channel to RefreshPods; RefreshContainers then inserts the containers the
// runtime reported. Every reader that comes after the fetch was started - in particular the creation of a discovered
// container, which derives and memoises its topology hints from the pod's resources - must observe what the fetch
// delivers, at every timing of the LIST goroutine. The receive in cache.go is a scheduling point (vgen -sched); a polling
// select stays native and sees what is in the channel at that moment.
//
// Oracle: differential - the observable result (per container: pod resources, memoised topology hints) on every schedule
// equals the result of the schedule in which the reply is in the channel before RefreshPods starts.

import (
	"fmt"
	"os"
	"path/filepath"
	"sort"
	"strings"
	"testing"

	nri "github.com/containerd/nri/pkg/api"
	podresv1 "k8s.io/kubelet/pkg/apis/podresources/v1"

	"github.com/containers/nri-plugins/pkg/agent/podresapi"
	logger "github.com/containers/nri-plugins/pkg/log"
	"github.com/containers/nri-plugins/pkg/verif/mc"
	"github.com/containers/nri-plugins/pkg/verif/sched"
)

func c15ListObserve(cch Cache, ids []string) string {
	var out []string
	for _, id := range ids {
		c, ok := cch.LookupContainer(id)
		if !ok {
			out = append(out, id+"=absent")
			continue
		}
		var hints []string
		for k, h := range c.GetTopologyHints() {
			hints = append(hints, fmt.Sprintf("%s{cpus:%s numas:%s sockets:%s}", k, h.CPUs, h.NUMAs, h.Sockets))
		}
		sort.Strings(hints)
		res := "none"
		if r := c.GetPodResources(); r != nil {
			res = fmt.Sprintf("cpus=%v devices=%d", r.GetCpuIds(), len(r.GetDevices()))
		}
		out = append(out, fmt.Sprintf("%s: podres[%s] hints[%s]", id, res, strings.Join(hints, " ")))
	}
	return strings.Join(out, "; ")
}

func TestVerifC15List(t *testing.T) {
	logger.SetLevel(logger.LevelPanic)
	w := mc.NewWorker(t, "C15")
	defer w.Finish()
	w.Replayer = nil
	scratch := os.Getenv("VERIF_SCRATCH")
	if scratch == "" {
		scratch = t.TempDir()
	}
	dir := filepath.Join(scratch, "c15-list")
	dev := func(name string, numa int64) *podresv1.ContainerDevices {
		return &podresv1.ContainerDevices{ResourceName: name, DeviceIds: []string{"dev-0"}, Topology: &podresv1.TopologyInfo{Nodes: []*podresv1.NUMANode{{ID: numa}}}}
	}
	list := func() *podresapi.PodResourcesList {
		return podresapi.NewPodResourcesList([]*podresv1.PodResources{
			{Name: "pod0", Namespace: "ns", Containers: []*podresv1.ContainerResources{{Name: "c0", CpuIds: []int64{1, 2}, Devices: []*podresv1.ContainerDevices{dev("vendor.com/dev", 1)}}}},
			{Name: "pod1", Namespace: "ns", Containers: []*podresv1.ContainerResources{{Name: "c1", Devices: []*podresv1.ContainerDevices{dev("vendor.com/other", 0)}}}},
		})
	}
	pods := []*nri.PodSandbox{
		{Id: "p0", Name: "pod0", Uid: "u0", Namespace: "ns", Linux: &nri.LinuxPodSandbox{CgroupParent: "/kubepods/pod0"}},
		{Id: "p1", Name: "pod1", Uid: "u1", Namespace: "ns", Linux: &nri.LinuxPodSandbox{CgroupParent: "/kubepods/pod1"}},
	}
	ctrs := []*nri.Container{
		{Id: "c0", PodSandboxId: "p0", Name: "c0", State: nri.ContainerState_CONTAINER_RUNNING},
		{Id: "c1", PodSandboxId: "p1", Name: "c1", State: nri.ContainerState_CONTAINER_RUNNING},
	}
	ids := []string{"c0", "c1"}
	outcomes := map[string]bool{}
	// modes: both containers discovered by this Synchronize; c0 known from the persisted cache and c1 discovered; the LIST
	// fails (channel closed without a reply)
	for _, mode := range []string{"discover-all", "one-restored", "list-fails"} {
		prepare := func() Cache {
			os.RemoveAll(dir)
			cch, err := NewCache(Options{CacheDir: dir})
			if err != nil {
				panic(err)
			}
			if mode == "one-restored" {
				cch.InsertPod(pods[0], nil)
				if _, err := cch.InsertContainer(ctrs[0]); err != nil {
					panic(err)
				}
				cch.Save()
				if cch, err = NewCache(Options{CacheDir: dir}); err != nil {
					panic(err)
				}
			}
			return cch
		}
		// reference: the reply is already there when Synchronize refreshes the pods
		ref := func() string {
			cch := prepare()
			ch := make(chan *podresapi.PodResourcesList, 1)
			if mode != "list-fails" {
				ch <- list()
			}
			close(ch)
			cch.RefreshPods(pods, ch)
			cch.RefreshContainers(ctrs)
			return c15ListObserve(cch, ids)
		}()
		var got string
		body := func(s *sched.Scheduler) {
			cch := prepare()
			ch := make(chan *podresapi.PodResourcesList, 1)
			got = ""
			s.Thread("handler", func() {
				cch.RefreshPods(pods, ch)
				sched.Observe("RefreshPods returned")
				cch.RefreshContainers(ctrs)
				got = c15ListObserve(cch, ids)
			})
			s.Thread("list-goroutine", func() {
				if mode != "list-fails" {
					sched.Send(ch, list())
				}
				sched.Close(ch)
			})
			s.Run()
		}
		bound := 2
		if w.Thorough() {
			bound = 5
		}
		st := sched.Explore(bound, 400000, body, func(s *sched.Scheduler, choices []int) {
			w.Res.Evaluations++
			w.Res.Transitions += int64(len(s.Points))
			viol := func(oracle, detail string) {
				w.Report(mc.Violation{Property: "C15", Oracle: oracle, Signature: "list:" + oracle, Scenario: "list/" + mode,
					Trace: []string{fmt.Sprint(choices)}, Detail: detail})
			}
			for _, p := range s.Panics {
				viol("panic", p)
			}
			if s.Diverged != "" {
				w.Res.Nondet = append(w.Res.Nondet, "list/"+mode+": "+s.Diverged)
				return
			}
			if s.Deadlock {
				viol("deadlock", fmt.Sprintf("threads %v never finish under schedule %v", s.Blocked, choices))
				return
			}
			outcomes[mode+"/"+got] = true
			if got != ref {
				viol("reader-misses-listed-resources", fmt.Sprintf("mode %s, schedule %v: after Synchronize's refresh the containers show\n  %s\nwith the reply in the channel before the refresh they show\n  %s", mode, choices, got, ref))
			}
		})
		w.Res.States += int64(st.Executions)
		if st.Capped {
			w.Cap("list/%s: execution cap reached", mode)
		}
		if mode == "discover-all" && !strings.Contains(ref, "podresourceapi:vendor.com/dev") {
			w.Report(mc.Violation{Property: "C15", Oracle: "harness", Signature: "list:harness-vacuous", Scenario: "list/" + mode, Detail: "the reference run derives no pod-resource hints: " + ref})
		}
		w.Note("list/%s: schedules=%d max_points=%d preemption histogram=%v bound=%d", mode, st.Executions, st.MaxPoints, st.Preempt, bound)
	}
	w.Res.Outcomes = int64(len(outcomes))
	w.Res.Nontrivial = w.Res.States
	w.Sample(map[string]any{"harness": "pod-resource LIST rendezvous", "threads": []string{"handler: RefreshPods; RefreshContainers", "list goroutine: deliver or fail"}})
	os.RemoveAll(dir)
}
