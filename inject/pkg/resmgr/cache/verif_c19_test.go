//go:build verif

package cache

// C19, expression half: every expression of a bounded grammar on every subject
// of a small family, against an independent reference evaluator; affinity
// weight clamping.

import (
	"fmt"
	"path/filepath"
	"strings"
	"testing"

	nri "github.com/containerd/nri/pkg/api"

	resmgr "github.com/containers/nri-plugins/pkg/apis/resmgr/v1alpha1"
	logger "github.com/containers/nri-plugins/pkg/log"
	"github.com/containers/nri-plugins/pkg/verif/mc"
)

type c19Subject struct {
	name string
	ev   resmgr.Evaluable
	// reference data
	isPod     bool
	cname, ns string
	id, uid   string
	qos       string
	labels    map[string]string
	tags      map[string]string
	pod       *c19Subject
}

// refResolve resolves one (non-joint) key against the reference data: (value, exists, valid key for this subject).
func (s *c19Subject) refResolve(key string) (string, bool, bool) {
	key = strings.TrimLeft(key, "/")
	pref, rest, _ := strings.Cut(key, "/")
	switch pref {
	case "name":
		return s.cname, rest == "", rest == ""
	case "namespace":
		return s.ns, rest == "", rest == ""
	case "id":
		return s.id, rest == "", rest == ""
	case "uid":
		if s.isPod {
			return s.uid, rest == "", rest == ""
		}
		return "", false, false
	case "qosclass":
		return s.qos, rest == "", rest == ""
	case "labels":
		if rest == "" {
			return "", false, false
		}
		v, ok := s.labels[rest]
		return v, ok, true
	case "tags":
		if rest == "" || s.isPod {
			return "", false, false
		}
		v, ok := s.tags[rest]
		return v, ok, true
	case "pod":
		if s.isPod || rest == "" || s.pod == nil {
			return "", false, false
		}
		return s.pod.refResolve(rest)
	}
	return "", false, false
}

func refValidSep(b byte) bool {
	switch {
	case '0' <= b && b <= '9', 'a' <= b && b <= 'z', 'A' <= b && b <= 'Z', b == '/', b == '.':
		return false
	}
	return true
}

// refKeyValue: documented joint-key semantics.
func (s *c19Subject) refKeyValue(key string) (value string, exists bool, valid bool) {
	if len(key) < 4 || key[0] != ':' {
		return s.refResolve(key)
	}
	rest := key[1:]
	ksep, vsep := ":", ":"
	if refValidSep(rest[0]) && refValidSep(rest[1]) {
		ksep, vsep, rest = rest[0:1], rest[1:2], rest[2:]
	}
	valid = true
	var vals []string
	for _, k := range strings.Split(rest, ksep) {
		v, ok, okKey := s.refResolve(k)
		if !okKey {
			valid = false
		}
		if !ok {
			v = ""
		}
		vals = append(vals, v)
		exists = exists || ok
	}
	return strings.Join(vals, vsep), exists, valid
}

func refEvaluate(op resmgr.Operator, values []string, value string, exists bool) (result bool, defined bool) {
	match := func(p string) bool { m, _ := filepath.Match(p, value); return m }
	switch op {
	case resmgr.Equals:
		if values[0] == "*" {
			return false, false // wildcard equality is an implementation extension the documentation does not describe: not judged
		}
		return exists && value == values[0], true
	case resmgr.NotEqual:
		return !exists || value != values[0], true
	case resmgr.In, resmgr.NotIn:
		r := false
		for _, v := range values {
			if v == "*" {
				return false, false
			}
			if exists && v == value {
				r = true
			}
		}
		return r != (op == resmgr.NotIn), true
	case resmgr.Exists:
		return exists, true
	case resmgr.NotExist:
		return !exists, true
	case resmgr.AlwaysTrue:
		return true, true
	case resmgr.Matches, resmgr.MatchesNot:
		return (exists && match(values[0])) != (op == resmgr.MatchesNot), true
	case resmgr.MatchesAny, resmgr.MatchesNone:
		r := false
		for _, p := range values {
			if exists && match(p) {
				r = true
			}
		}
		return r != (op == resmgr.MatchesNone), true
	}
	return false, false
}

func c19Subjects(t *testing.T, cch Cache) []*c19Subject {
	mkPod := func(id, name, ns, cg string, labels map[string]string) *c19Subject {
		p := cch.InsertPod(&nri.PodSandbox{Id: id, Name: name, Uid: "uid-" + id, Namespace: ns, Labels: labels,
			Linux: &nri.LinuxPodSandbox{CgroupParent: cg}}, nil)
		qos := "Guaranteed"
		if strings.Contains(cg, "burstable") {
			qos = "Burstable"
		} else if strings.Contains(cg, "besteffort") {
			qos = "BestEffort"
		}
		return &c19Subject{name: "pod:" + name, ev: p.(resmgr.Evaluable), isPod: true, cname: name, ns: ns, id: id, uid: "uid-" + id, qos: qos, labels: labels}
	}
	mkCtr := func(id string, pod *c19Subject, name string, labels, tags map[string]string) *c19Subject {
		c, err := cch.InsertContainer(&nri.Container{Id: id, PodSandboxId: pod.id, Name: name, Labels: labels, State: nri.ContainerState_CONTAINER_CREATED})
		if err != nil {
			t.Fatalf("insert: %v", err)
		}
		for k, v := range tags {
			c.SetTag(k, v)
		}
		return &c19Subject{name: "ctr:" + name, ev: c.(resmgr.Evaluable), cname: name, ns: pod.ns, id: id, qos: pod.qos, labels: labels, tags: tags, pod: pod}
	}
	p1 := mkPod("p1", "a", "b", "/kubepods/burstable/pod1", map[string]string{"app": "a", "io.test/x.y": "b"})
	p2 := mkPod("p2", "b", "a*", "/kubepods/pod2", map[string]string{})
	c1 := mkCtr("c1", p1, "a", map[string]string{"l": "a", "a.b/c": "*"}, map[string]string{"t": "b"})
	c2 := mkCtr("c2", p2, "[", map[string]string{}, map[string]string{"t": "", "u": "a"})
	c3 := mkCtr("c3", p1, "", nil, nil)
	return []*c19Subject{p1, p2, c1, c2, c3}
}

func TestVerifC19(t *testing.T) {
	logger.SetLevel(logger.LevelPanic)
	w := mc.NewWorker(t, "C19")
	defer w.Finish()
	w.Replayer = nil
	cch, err := NewCache(Options{CacheDir: t.TempDir()})
	if err != nil {
		t.Fatalf("%v", err)
	}
	subjects := c19Subjects(t, cch)
	keys := []string{"name", "namespace", "id", "uid", "qosclass", "pod/name", "pod/namespace", "pod/qosclass", "pod/id", "pod/uid", "pod/labels/app", "pod/labels/io.test/x.y",
		"labels/l", "labels/a.b/c", "labels/missing", "tags/t", "tags/u", "tags/missing", "/name", "pod//name",
		":name:namespace", ":,-name,pod/name", ":;.name;namespace", ":::name:tags/t:labels/missing", ":|_pod/qosclass|pod/labels/app|qosclass", ":/.name/namespace", ":ab", "::",
		// joint keys of falling arity one after the other (4, 3, 2 sub-keys; evaluation must not depend on what was evaluated before)
		":,+name,namespace,pod/name,pod/labels/app", ":,+name,namespace,pod/name", ":,+name,namespace",
		"", "foo", "name/x", "pod", "labels", "tags", "pod/foo", "pod/pod/name", "pod/tags/t", "qosclass/x", ":name:foo"}
	ops := []resmgr.Operator{resmgr.Equals, resmgr.NotEqual, resmgr.In, resmgr.NotIn, resmgr.Exists, resmgr.NotExist, resmgr.AlwaysTrue,
		resmgr.Matches, resmgr.MatchesNot, resmgr.MatchesAny, resmgr.MatchesNone, resmgr.Operator("Bogus")}
	atoms := []string{"a", "b", "*", "a*", "[", "", "a:b", "Burstable:a:Burstable"}
	var valueLists [][]string
	valueLists = append(valueLists, nil)
	for _, x := range atoms {
		valueLists = append(valueLists, []string{x})
	}
	for _, x := range atoms[:6] {
		for _, y := range atoms[:6] {
			valueLists = append(valueLists, []string{x, y})
		}
	}
	if w.Thorough() {
		for _, x := range atoms[:6] {
			for _, y := range atoms[:6] {
				for _, z := range atoms[:6] {
					valueLists = append(valueLists, []string{x, y, z})
				}
			}
		}
	}
	neg := map[resmgr.Operator]resmgr.Operator{resmgr.In: resmgr.NotIn, resmgr.Matches: resmgr.MatchesNot, resmgr.MatchesAny: resmgr.MatchesNone, resmgr.Exists: resmgr.NotExist}
	outcomes := map[string]bool{}
	viol := func(oracle, sig, input, detail string) {
		w.Report(mc.Violation{Property: "C19", Oracle: oracle, Signature: sig, Scenario: "expressions", Trace: []string{input}, Detail: detail})
	}
	for _, s := range subjects {
		for _, key := range keys {
			rv, rexists, rvalid := s.refKeyValue(key)
			for _, op := range ops {
				for _, vals := range valueLists {
					e := &resmgr.Expression{Key: key, Op: op, Values: vals}
					input := fmt.Sprintf("subject=%s key=%q op=%s values=%q", s.name, key, op, vals)
					var verr error
					if p, msg, where := mc.Guard(func() { verr = e.Validate() }); p {
						viol("validate-panics", "validate-panics@"+where, input, msg)
						continue
					}
					w.Res.Evaluations++
					if verr != nil {
						outcomes["invalid"] = true
						continue
					}
					// (3) an accepted expression never fails at evaluation
					var got bool
					if p, msg, where := mc.Guard(func() { got = e.Evaluate(s.ev) }); p {
						viol("evaluate-panics", "evaluate-panics@"+where, input, msg)
						continue
					}
					if op != resmgr.AlwaysTrue && rvalid {
						// every sub-key must resolve without hitting the resolver's error path
						ks := []string{key}
						if len(key) >= 4 && key[0] == ':' {
							rest, ksep := key[1:], ":"
							if refValidSep(rest[0]) && refValidSep(rest[1]) {
								ksep, rest = rest[0:1], rest[2:]
							}
							ks = strings.Split(rest, ksep)
						}
						for _, k := range ks {
							if _, _, rerr := resmgr.ResolveRef(s.ev, k); rerr != nil {
								viol("validated-key-fails-to-resolve", "validated-key-fails-to-resolve:"+strings.TrimLeft(k, "/"), input, fmt.Sprintf("Validate() accepts the expression but resolving %q fails: %v", k, rerr))
							}
						}
					}
					w.Res.Nontrivial++
					outcomes[fmt.Sprintf("%s/%v", op, got)] = true
					// (1) negation pairs are exact complements
					if n, ok := neg[op]; ok {
						ne := &resmgr.Expression{Key: key, Op: n, Values: vals}
						if ne.Validate() == nil {
							if ngot := ne.Evaluate(s.ev); ngot == got {
								viol("negation-pair-not-complementary", "negation-pair-not-complementary:"+string(op), input, fmt.Sprintf("%s and %s both evaluate to %v", op, n, got))
							}
						}
					}
					// (2)+(documented semantics): compare with the reference evaluator where the key is meaningful for the subject
					if rvalid {
						if kv, kok := resmgr.KeyValue(key, s.ev); kv != rv || kok != rexists {
							if !(kok == rexists && !kok) {
								viol("key-value", "key-value", input, fmt.Sprintf("KeyValue(%q) = (%q, %v), expected (%q, %v)", key, kv, kok, rv, rexists))
							}
						}
						if want, defined := refEvaluate(op, vals, rv, rexists); defined && want != got {
							viol("operator-semantics", "operator-semantics:"+string(op), input, fmt.Sprintf("evaluates to %v, documented semantics give %v (key value %q, exists %v)", got, want, rv, rexists))
						}
					}
				}
			}
		}
	}
	// (4) weights of user-supplied affinities are clamped
	weights := []int64{0, 1, -1, 999, 1000, 1001, -1000, -1001, 2147483647, -2147483648, 50000}
	for _, kind := range []string{"affinity", "anti-affinity"} {
		for _, wv := range weights {
			ann := fmt.Sprintf("c:\n  - match:\n      key: name\n      operator: Exists\n    weight: %d\n", wv)
			p := cch.InsertPod(&nri.PodSandbox{Id: fmt.Sprintf("w%s%d", kind, wv), Name: "w", Namespace: "ns",
				Annotations: map[string]string{"resource-policy.nri.io/" + kind: ann}}, nil)
			var affs []*Affinity
			var aerr error
			input := fmt.Sprintf("%s weight=%d", kind, wv)
			if pn, msg, where := mc.Guard(func() { affs, aerr = p.GetContainerAffinity("c") }); pn {
				viol("affinity-panics", "affinity-panics@"+where, input, msg)
				continue
			}
			w.Res.Evaluations++
			if aerr != nil {
				continue
			}
			for _, a := range affs {
				if a.Weight > 1000 || a.Weight < -1000 {
					viol("weight-not-clamped", "weight-not-clamped", input, fmt.Sprintf("%s with weight %d yields effective weight %d", kind, wv, a.Weight))
				}
				if wv != 0 && kind == "affinity" && (a.Weight > 0) != (wv > 0) {
					viol("weight-sign", "weight-sign", input, fmt.Sprintf("affinity weight %d became %d", wv, a.Weight))
				}
			}
			w.Res.Nontrivial++
		}
	}
	w.Res.Outcomes = int64(len(outcomes))
	w.Sample(map[string]any{"subject": "ctr:a", "key": ":,-name,pod/name", "op": "Matches", "values": []string{"a*"}})
}
