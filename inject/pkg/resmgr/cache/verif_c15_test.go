//go:build verif

package cache

// C15, fetch rendezvous: every GetPodResources() that starts after InsertPod
// returned must see what the asynchronous fetch delivers, on every schedule of
// the inserting thread, the fetch goroutine and the environment.

import (
	"fmt"
	"os"
	"path/filepath"
	"testing"

	nri "github.com/containerd/nri/pkg/api"
	podresv1 "k8s.io/kubelet/pkg/apis/podresources/v1"

	"github.com/containers/nri-plugins/pkg/agent/podresapi"
	logger "github.com/containers/nri-plugins/pkg/log"
	"github.com/containers/nri-plugins/pkg/verif/mc"
	"github.com/containers/nri-plugins/pkg/verif/sched"
	"github.com/containers/nri-plugins/pkg/verif/vos"
)

func TestVerifC15Fetch(t *testing.T) {
	logger.SetLevel(logger.LevelPanic)
	w := mc.NewWorker(t, "C15")
	defer w.Finish()
	w.Replayer = nil
	scratch := os.Getenv("VERIF_SCRATCH")
	if scratch == "" {
		scratch = t.TempDir()
	}
	dir := filepath.Join(scratch, "c15-fetch")
	outcomes := map[string]bool{}
	for _, mode := range []string{"deliver", "close-empty", "deliver-two-readers", "deliver-then-insert-container"} {
		var delivered *podresapi.PodResources
		type obs struct {
			got   [3]*podresapi.PodResources
			n     int
			ctrOK bool
		}
		var o *obs
		var strayIO []string
		body := func(s *sched.Scheduler) {
			// the cache is unsynchronised and relies on its caller's lock: only handler threads may write the state
			// directory; the fetch goroutine stores its result in the pod and nothing else
			strayIO = nil
			vos.Reset()
			vos.Before = func(op *vos.Op) {
				if t := sched.Current(); t != nil && t.Name != "handler" && t.Name != "second-reader" {
					strayIO = append(strayIO, fmt.Sprintf("%s %s by thread %q", op.Kind, filepath.Base(op.Path), t.Name))
				}
			}
			os.RemoveAll(dir)
			cch, err := NewCache(Options{CacheDir: dir})
			if err != nil {
				panic(err)
			}
			o = &obs{}
			ch := make(chan *podresapi.PodResources, 1)
			delivered = &podresapi.PodResources{PodResources: &podresv1.PodResources{Name: "pod0", Namespace: "ns",
				Containers: []*podresv1.ContainerResources{{Name: "c0", CpuIds: []int64{1, 2}}}}}
			nriPod := &nri.PodSandbox{Id: "p0", Name: "pod0", Namespace: "ns", Linux: &nri.LinuxPodSandbox{CgroupParent: "/kubepods/pod0"}}
			var inserted Pod
			s.Thread("handler", func() {
				inserted = cch.InsertPod(nriPod, ch)
				sched.Observe("InsertPod returned")
				o.got[0] = inserted.GetPodResources()
				o.n = 1
				if mode == "deliver-then-insert-container" {
					c, err := cch.InsertContainer(&nri.Container{Id: "c0", PodSandboxId: "p0", Name: "c0"})
					o.ctrOK = err == nil && c.GetPodResources() != nil
				}
			})
			s.Thread("environment", func() {
				if mode == "close-empty" {
					sched.Close(ch)
				} else {
					sched.Send(ch, delivered)
				}
			})
			if mode == "deliver-two-readers" {
				s.Thread("second-reader", func() {
					sched.Block("wait-insert", func() bool { return inserted == nil })
					o.got[1] = inserted.GetPodResources()
				})
			}
			s.Run()
		}
		bound := 2
		if w.Thorough() {
			bound = -1
		}
		st := sched.Explore(bound, 200000, body, func(s *sched.Scheduler, choices []int) {
			w.Res.Evaluations++
			w.Res.Transitions += int64(len(s.Points))
			viol := func(oracle, detail string) {
				w.Report(mc.Violation{Property: "C15", Oracle: oracle, Signature: "fetch:" + oracle, Scenario: "fetch/" + mode,
					Trace: []string{fmt.Sprint(choices)}, Detail: detail})
			}
			vos.Before = nil
			for _, p := range s.Panics {
				viol("panic", p)
			}
			if len(strayIO) > 0 {
				viol("cache-written-outside-handler", fmt.Sprintf("the state directory was written by a thread that is not a request handler (and so holds no lock): %v (schedule %v)", strayIO, choices))
			}
			if s.Diverged != "" {
				w.Res.Nondet = append(w.Res.Nondet, "fetch/"+mode+": "+s.Diverged)
				return
			}
			if s.Deadlock {
				viol("deadlock", fmt.Sprintf("threads %v never finish under schedule %v", s.Blocked, choices))
				return
			}
			want := delivered
			if mode == "close-empty" {
				want = nil
			}
			outcomes[fmt.Sprintf("%s/%v/%v", mode, o.got[0] != nil, o.got[1] != nil)] = true
			if o.got[0] != want {
				viol("reader-misses-fetched-resources", fmt.Sprintf("mode %s: GetPodResources() right after InsertPod returned %v, the fetch delivers %v (schedule %v)", mode, o.got[0] != nil, want != nil, choices))
			}
			if mode == "deliver-two-readers" && o.got[1] != want {
				viol("second-reader-misses-fetched-resources", fmt.Sprintf("a second reader got %v, the fetch delivers %v (schedule %v)", o.got[1] != nil, want != nil, choices))
			}
			if mode == "deliver-then-insert-container" && !o.ctrOK {
				viol("container-misses-pod-resources", fmt.Sprintf("a container inserted right after InsertPod does not see the pod's fetched resources (schedule %v)", choices))
			}
		})
		w.Res.States += int64(st.Executions)
		if st.Capped {
			w.Cap("fetch/%s: execution cap reached", mode)
		}
		w.Note("fetch/%s: schedules=%d max_points=%d preemption histogram=%v bound=%d", mode, st.Executions, st.MaxPoints, st.Preempt, bound)
	}
	w.Res.Outcomes = int64(len(outcomes))
	w.Res.Nontrivial = w.Res.States
	w.Sample(map[string]any{"harness": "fetch rendezvous", "threads": []string{"handler: InsertPod; GetPodResources", "fetch goroutine", "environment: deliver or close"}})
	os.RemoveAll(dir)
}
