//go:build verif

package resmgr

import (
	"fmt"
	"os"
	"path/filepath"
	"sort"
	"strings"
	"testing"

	tapolicy "github.com/containers/nri-plugins/cmd/plugins/topology-aware/policy"
	cfgapi "github.com/containers/nri-plugins/pkg/apis/config/v1alpha1"
	"github.com/containers/nri-plugins/pkg/utils/cpuset"
	"github.com/containers/nri-plugins/pkg/verif/mc"
	"github.com/containers/nri-plugins/pkg/verif/sysgen"
)

type VerifPoolT = tapolicy.VerifPool

type oracleFn func(x *exec, v *viols, pre, post *snap, rp *reply)

type propDef struct {
	id        string
	oracles   []oracleFn
	scenarios func(thorough bool) []*scenario
	needPre   bool
	nontriv   func(x *exec, post *snap) bool
	post      func(w *mc.Worker, s *scenario, dir string, trace []string, x *exec, post *snap) []mc.Violation // extra per-state oracle (e.g. drain)
}

var verifDirSeq int

func scratchDir() string {
	base := os.Getenv("VERIF_SCRATCH")
	if base == "" {
		base = os.TempDir()
	}
	return filepath.Join(base, "state")
}

// runTrace executes prefix+trace on a fresh instance and judges the last event of trace.
func runTrace(pd *propDef, s *scenario, trace []string, judge bool) (st mc.Step, x *exec, post *snap) {
	dir := scratchDir()
	var err error
	pan, msg, where := mc.Guard(func() { x, err = newExec(s, dir) })
	if pan || err != nil {
		if pan {
			err = fmt.Errorf("panic %s at %s", msg, where)
		}
		st.Key = "setup-failed"
		st.Stop = true
		st.Violations = []mc.Violation{{Property: pd.id, Oracle: "harness-setup", Signature: "harness-setup-failed", Scenario: s.name, Detail: err.Error()}}
		return st, nil, nil
	}
	v := &viols{prop: pd.id, scn: s.name, trace: trace}
	x.evIndex = -1
	for _, ev := range s.prefix {
		rp := x.step(ev)
		if rp.panic != "" {
			v.prop = "C14"
			v.add("panic", "panic@"+rp.where+":"+strings.Split(ev, ":")[0], "setup event %s panics: %s", ev, rp.panic)
			st.Key, st.Stop, st.Violations = "panic", true, v.out
			return st, x, nil
		}
	}
	x.log = nil
	var pre *snap
	var rp *reply
	for i, ev := range trace {
		last := i == len(trace)-1
		if last {
			pre = x.snapshot()
			x.preSnap = pre
			st.ParentKey = pre.key()
			x.log = nil
		}
		x.evIndex = i
		rp = x.step(ev)
		if rp.panic != "" {
			if last {
				pv := &viols{prop: "C14", scn: s.name, trace: trace}
				pv.add("panic", "panic@"+rp.where+":"+strings.Split(ev, ":")[0], "%s panics: %s", ev, rp.panic)
				st.Violations = append(st.Violations, pv.out...)
			}
			st.Key = "dead:" + strings.Join(trace[:i+1], ",")
			st.Stop = true
			st.Outcome = "panic"
			return st, x, nil
		}
	}
	post = x.snapshot()
	st.Key = post.key()
	st.Enabled = x.enabled()
	if len(trace) == 0 {
		st.ParentKey = ""
		return st, x, post
	}
	errS := "ok"
	if rp.err != nil {
		errS = "err"
	}
	st.Outcome = fmt.Sprintf("%s/%s/%d/%d", strings.Split(rp.ev, ":")[0], errS, len(rp.updates), len(rp.pushed))
	verifCounters["requests_"+strings.Split(rp.ev, ":")[0]+"_"+errS]++
	if len(rp.updates)+len(rp.pushed) > 0 {
		verifCounters["replies_updating_other_containers"]++
	}
	if judge {
		for _, o := range pd.oracles {
			o(x, v, pre, post, rp)
		}
		st.Violations = append(st.Violations, v.out...)
	}
	if pd.nontriv != nil {
		st.Nontrivial = pd.nontriv(x, post)
	} else {
		st.Nontrivial = len(x.liveCtrs()) >= 2
	}
	return st, x, post
}

func runProp(t *testing.T, pd *propDef) {
	w := mc.NewWorker(t, pd.id)
	defer w.Finish()
	scs := pd.scenarios(w.Thorough())
	byName := map[string]*scenario{}
	for _, s := range scs {
		byName[s.name] = s
	}
	w.Replayer = func(sc string, trace []string) []mc.Violation {
		s := byName[sc]
		if s == nil {
			return nil
		}
		// suffix markers such as <drain> / <probe> are not events: the suffix oracle re-executes them
		for len(trace) > 0 && strings.HasPrefix(trace[len(trace)-1], "<") {
			trace = trace[:len(trace)-1]
		}
		st, x, post := runTrace(pd, s, trace, true)
		out := st.Violations
		if pd.post != nil && x != nil && post != nil {
			out = append(out, pd.post(w, s, scratchDir(), trace, x, post)...)
		}
		return out
	}
	if w.ReplayV != nil {
		for _, v := range w.Replayer(w.ReplayV.Scenario, w.ReplayV.Trace) {
			t.Logf("REPLAY %s %s: %s", v.Property, v.Signature, v.Detail)
			w.Res.Violations = append(w.Res.Violations, v)
		}
		return
	}
	if only := os.Getenv("VERIF_SCENARIO"); only != "" {
		var f []*scenario
		for _, s := range scs {
			if strings.Contains(s.name, only) {
				f = append(f, s)
			}
		}
		scs = f
	}
	for i, s := range scs {
		if !w.Mine(i) {
			continue
		}
		depth := s.depth
		if d := os.Getenv("VERIF_DEPTH"); d != "" {
			fmt.Sscanf(d, "%d", &depth)
		}
		ex := &mc.Explorer{W: w, Scenario: s.name, Depth: depth, Run: func(tr []string) mc.Step {
			st, x, post := runTrace(pd, s, tr, true)
			if pd.post != nil && x != nil && post != nil {
				st.Violations = append(st.Violations, pd.post(w, s, scratchDir(), tr, x, post)...)
			}
			return st
		}}
		states, trans, d := ex.Explore()
		for k, n := range verifCounters {
			w.Count(k, n)
			delete(verifCounters, k)
		}
		w.Note("%s: states=%d transitions=%d depth=%d/%d", s.name, states, trans, d, depth)
	}
}

var propC01 = &propDef{id: "C01", oracles: []oracleFn{oracleC01}, scenarios: taScenarios,
	nontriv: func(x *exec, post *snap) bool {
		n := 0
		for _, g := range post.TA.Grants {
			if g.ExclusiveCount > 0 {
				n++
			}
		}
		return n >= 1 && len(post.TA.Grants) >= 2
	}}

var propC03 = &propDef{id: "C03", oracles: []oracleFn{oracleC03}, scenarios: taScenarios}

// C05 quantifies over configuration updates too - accepted and rejected ones (a rejected update is rolled back by re-applying
// the old configuration, which may move containers again): the reconfiguration scenarios of C13 are part of its driver.
var propC05 = &propDef{id: "C05", oracles: []oracleFn{oracleC05}, scenarios: func(thorough bool) []*scenario {
	out := append(bothScenarios(thorough), c13Scenarios(thorough)...)
	// a container created again under the same name while the plugin still holds the previous instance as live (its stop
	// was never delivered): the handler releases the stale instance and admits the new one in ONE request, and both steps
	// re-pin the bystanders - still at most one update per container in the reply
	one := &sysgen.Spec{Name: "1s1n4c2t", Packages: 1, NodesPerDie: 1, CoresPerNode: 4, Threads: 2}
	ta := &scenario{name: "ta/recreate-live/1pool/G2-B500-B200", policy: polTA, machine: one, cfgs: []cfgSpec{taCfg("rsv750m")}, pods: pods(tG2, tB500, tB200),
		menu: menu{stop: true, recreateLive: true}, depth: 5, maxInc: 2}
	ta.prefix = runAll(3)
	bl := &scenario{name: "bl/recreate-live/dyn", policy: polBalloons, machine: machine8(), cfgs: []cfgSpec{blCfg("dyn", dynShareDefs())},
		pods: []podSpec{nsPod("a", "dyn1", tG2, nil), nsPod("b", "share", tB500, nil), nsPod("c", "dyn1", tG1, nil)}, menu: menu{stop: true, recreateLive: true}, depth: 5, maxInc: 2}
	bl.prefix = runAll(3)
	return append(out, ta, bl)
}}

func bothScenarios(thorough bool) []*scenario {
	return append(taScenarios(thorough), blScenarios(thorough)...)
}

func TestVerifC01(t *testing.T) { runProp(t, propC01) }
func TestVerifC03(t *testing.T) { runProp(t, propC03) }
func TestVerifC05(t *testing.T) { runProp(t, propC05) }

// C09 quantifies over reconfigurations too (accepted and rejected, incl. options toggled between a container's admission
// and its release): the reconfiguration scenarios of C13 are part of its driver.
var propC09 = &propDef{id: "C09", oracles: []oracleFn{oracleC09}, scenarios: func(thorough bool) []*scenario {
	return append(c09Scenarios(thorough), c13Scenarios(thorough)...)
}, post: drainC09}

func TestVerifC09(t *testing.T) { runProp(t, propC09) }

var propC02 = &propDef{id: "C02", oracles: []oracleFn{oracleC02}, scenarios: blScenarios}

func TestVerifC02(t *testing.T) { runProp(t, propC02) }

var propC04 = &propDef{id: "C04", oracles: []oracleFn{oracleC04}, scenarios: c04Scenarios,
	nontriv: func(x *exec, post *snap) bool { return len(post.MemReqs) >= 2 }}

func TestVerifC04(t *testing.T) { runProp(t, propC04) }

var propC12 = &propDef{id: "C12", oracles: []oracleFn{oracleC12}, scenarios: c12Scenarios}

func TestVerifC12(t *testing.T) { runProp(t, propC12) }

var propC13 = &propDef{id: "C13", oracles: []oracleFn{oracleC13}, scenarios: c13Scenarios}

func init() { propC13.post = twinC13(propC13) }

func TestVerifC13(t *testing.T) { runProp(t, propC13) }

var propC11 = &propDef{id: "C11", oracles: []oracleFn{oracleC11}, scenarios: c11Scenarios}

func TestVerifC11(t *testing.T) { runProp(t, propC11) }

var propC14 = &propDef{id: "C14", oracles: nil, scenarios: c14Scenarios, post: probeC14}

func TestVerifC14(t *testing.T) { runProp(t, propC14) }

// TestVerifC14Inputs: every interpreted annotation key x value menu x form, and every resource shape, through a full container lifecycle.
func TestVerifC14Inputs(t *testing.T) {
	w := mc.NewWorker(t, "C14")
	defer w.Finish()
	cases := c14InputCases(w.Thorough())
	seq := []string{"run:p0", "create:c0", "start:c0", "update:c0:0", "update:c0:1", "update:c0:2", "sync", "reconf:0", "stop:c0", "remove:c0", "stoppod:p0", "rmpod:p0"}
	replay := ""
	if w.ReplayV != nil {
		replay = w.ReplayV.Scenario
		w.Replayer = nil
	}
	outcomes := map[string]bool{}
	for i, s := range cases {
		if replay != "" {
			if s.name != replay {
				continue
			}
		} else if !w.Mine(i) {
			continue
		}
		var x *exec
		var err error
		pan, msg, where := mc.Guard(func() { x, err = newExec(s, scratchDir()) })
		if pan || err != nil {
			w.Report(mc.Violation{Property: "C14", Oracle: "setup", Signature: "setup-fails:" + s.policy, Scenario: s.name, Detail: fmt.Sprint(msg, where, err)})
			continue
		}
		x.evIndex = -1
		out := ""
		for _, ev := range seq {
			rp := x.step(ev)
			w.Res.Evaluations++
			if rp.panic != "" {
				w.Report(mc.Violation{Property: "C14", Oracle: "panic", Signature: "panic@" + rp.where + ":" + strings.Split(ev, ":")[0], Scenario: s.name, Trace: []string{ev},
					Detail: fmt.Sprintf("%s with %s panics: %s", ev, s.name, rp.panic)})
				break
			}
			if rp.err != nil {
				out += "E"
			} else {
				out += "."
			}
		}
		outcomes[out] = true
		if !x.in.dead {
			for _, v := range probeC14(w, s, scratchDir(), seq, x, nil) {
				w.Report(v)
			}
		}
		w.Res.Nontrivial++
		if i%97 == 0 {
			w.Sample(map[string]any{"case": s.name, "outcome": out})
		}
	}
	w.Res.Outcomes = int64(len(outcomes))
}

// TestVerifC19Balloons: which balloon type a created container lands in, for every order of the configured types.
func TestVerifC19Balloons(t *testing.T) {
	w := mc.NewWorker(t, "C19")
	defer w.Finish()
	w.Replayer = nil
	cases := c19BalloonCases(w.Thorough())
	replay := ""
	if w.ReplayV != nil {
		replay = w.ReplayV.Scenario
	}
	outcomes := map[string]bool{}
	for i, cs := range cases {
		if replay != "" {
			if cs.s.name != replay {
				continue
			}
		} else if !w.Mine(i) {
			continue
		}
		// every case twice: on the configuration as applied at start, and after an update that validation refuses and that
		// carries other type names - the configuration in force, and with it the selection, must be the same
		for _, pre := range []string{"", ":after-refused-update", ":after-permuting-update"} {
			var x *exec
			var err error
			scn := cs.s
			if pre == ":after-permuting-update" {
				// the policy starts with the same types in reverse order and is then given the order of the case by an
				// accepted update: the order in force, and with it the selection, is the one of the update
				target := cs.s.cfgs[0]
				rev := cfgSpec{label: "reversed", build: func() cfgapi.ResmgrConfig {
					c := target.build().(*cfgapi.BalloonsPolicy)
					d := c.Spec.Config.BalloonDefs
					for a, b := 0, len(d)-1; a < b; a, b = a+1, b-1 {
						d[a], d[b] = d[b], d[a]
					}
					return c
				}}
				if len(target.build().(*cfgapi.BalloonsPolicy).Spec.Config.BalloonDefs) < 2 {
					continue
				}
				cp := *cs.s
				cp.cfgs = []cfgSpec{rev, target}
				scn = &cp
			}
			pan, msg, where := mc.Guard(func() { x, err = newExec(scn, scratchDir()) })
			if pan || err != nil {
				w.Report(mc.Violation{Property: "C19", Oracle: "setup", Signature: "setup-fails", Scenario: cs.s.name, Detail: fmt.Sprint(msg, where, err)})
				continue
			}
			x.evIndex = -1
			if pre == ":after-permuting-update" {
				if rp := x.step("reconf:1"); rp.err != nil || rp.panic != "" {
					w.Report(mc.Violation{Property: "C19", Oracle: "harness", Signature: "permuting-update-refused", Scenario: cs.s.name, Detail: fmt.Sprintf("the update that only reorders the balloon types was refused: %v %s", rp.err, rp.panic)})
					continue
				}
			}
			if pre == ":after-refused-update" {
				bad := blCfg("refused", []*blDef{{Name: "byns", MinCpus: 3, MaxCpus: 2}, {Name: "zz-only-in-refused", MinCpus: 1}}).build()
				var rerr error
				mc.Guard(func() { rerr = x.in.m.reconfigure(bad) })
				if rerr == nil {
					w.Report(mc.Violation{Property: "C19", Oracle: "harness", Signature: "refused-update-accepted", Scenario: cs.s.name, Detail: "the update with minCPUs > maxCPUs was accepted"})
					continue
				}
			}
			x.step("run:p0")
			rp := x.step("create:c0")
			w.Res.Evaluations++
			if rp.panic != "" {
				w.Report(mc.Violation{Property: "C14", Oracle: "panic", Signature: "panic@" + rp.where + ":create", Scenario: cs.s.name, Trace: []string{"run:p0", "create:c0"}, Detail: rp.panic})
				continue
			}
			post := x.snapshot()
			got := x.balloonDefOf(x.w.ctrs[0], post)
			if rp.err != nil {
				got = "<error>"
			}
			// the public observable: the zone the container sub-zone hangs under
			zoneDef := ""
			for _, z := range post.Zones {
				if z.Type == "allocation for container" && strings.HasSuffix(z.Name, "/"+x.w.ctrs[0].spec.name) {
					zoneDef = strings.Split(z.Parent, "[")[0]
				}
			}
			outcomes[got] = true
			w.Res.Nontrivial++
			if got != cs.want {
				w.Report(mc.Violation{Property: "C19", Oracle: "balloon-type-selection", Signature: "balloon-type-selection:" + cs.kind + pre, Scenario: cs.s.name, Trace: []string{"run:p0", "create:c0"},
					Detail: fmt.Sprintf("container kind %q with types in order %v lands in %q, expected %q (error: %v)", cs.kind, cs.order, got, cs.want, rp.err)})
			} else if rp.err == nil && zoneDef != got {
				w.Report(mc.Violation{Property: "C19", Oracle: "zone-differs-from-membership", Signature: "zone-differs-from-membership", Scenario: cs.s.name, Trace: []string{"run:p0", "create:c0"},
					Detail: fmt.Sprintf("container is a member of a %q balloon but its topology sub-zone hangs under %q", got, zoneDef)})
			}
			if i%17 == 0 && pre == "" {
				w.Sample(map[string]any{"types": cs.order, "container": cs.kind, "balloon_type": got})
			}
		}
	}
	// containers of ONE pod that resolve to different types (container-specific annotation next to a namespace pattern, or
	// next to a pod-wide annotation): each must land in a balloon of its own type, whichever of them is created first
	if w.Mine(len(cases)) && replay == "" {
		defs := []*blDef{{Name: "byns", Namespaces: []string{"team-*"}, MaxCpus: 4}, {Name: "named", MaxCpus: 4}, {Name: "other", MaxCpus: 4}}
		for _, mc2 := range []struct {
			name  string
			ann   map[string]string
			wantC string
			wantD string
		}{
			{"ns-pattern+container-annotation", map[string]string{annBalloon + "/container.d": "named"}, "byns", "named"},
			{"pod-annotation+container-annotation", map[string]string{annBalloon + "/pod": "other", annBalloon + "/container.d": "named"}, "other", "named"},
			{"bare-annotation+container-annotation", map[string]string{annBalloon: "named", annBalloon + "/container.c": "other"}, "other", "named"},
		} {
			for _, order := range [][]string{{"create:c0", "create:c1"}, {"create:c1", "create:c0"}} {
				sc := &scenario{name: "c19/one-pod-two-types/" + mc2.name, policy: polBalloons, machine: machine16(), cfgs: []cfgSpec{blCfg("two-types", defs)}, maxInc: 1,
					pods: []podSpec{{name: "duo", ns: "team-a", qos: "Burstable", annotations: mc2.ann, ctrs: []ctrSpec{{name: "c", t: tB500}, {name: "d", t: tB500}}}}}
				x, err := newExec(sc, scratchDir())
				if err != nil {
					w.Report(mc.Violation{Property: "C19", Oracle: "setup", Signature: "setup-fails", Scenario: sc.name, Detail: err.Error()})
					continue
				}
				x.evIndex = -1
				x.step("run:p0")
				for _, ev := range order {
					x.step(ev)
				}
				post := x.snapshot()
				gotC, gotD := x.balloonDefOf(x.w.ctrs[0], post), x.balloonDefOf(x.w.ctrs[1], post)
				w.Res.Evaluations++
				w.Res.Nontrivial++
				if gotC != mc2.wantC || gotD != mc2.wantD {
					w.Report(mc.Violation{Property: "C19", Oracle: "balloon-type-selection", Signature: "balloon-type-selection:one-pod-two-types", Scenario: sc.name, Trace: append([]string{"run:p0"}, order...),
						Detail: fmt.Sprintf("pod with annotations %v: container c lands in %q (expected %q), container d in %q (expected %q)", mc2.ann, gotC, mc2.wantC, gotD, mc2.wantD)})
				}
			}
		}
	}
	w.Res.Outcomes = int64(len(outcomes))
}

// TestVerifC16Pools: pool-tree well-formedness for every machine x available/reserved configuration the policy accepts.
func TestVerifC16Pools(t *testing.T) {
	w := mc.NewWorker(t, "C16")
	defer w.Finish()
	w.Replayer = nil
	cases := c16PoolCases(w.Thorough())
	replay := ""
	if w.ReplayV != nil {
		replay = w.ReplayV.Scenario
	}
	accepted := 0
	for i, s := range cases {
		if replay != "" {
			if s.name != replay {
				continue
			}
		} else if !w.Mine(i) {
			continue
		}
		w.Res.Evaluations++
		var x *exec
		var err error
		pan, msg, where := mc.Guard(func() { x, err = newExec(s, scratchDir()) })
		if pan {
			w.Report(mc.Violation{Property: "C14", Oracle: "panic", Signature: "panic@" + where + ":policy-start", Scenario: s.name, Detail: msg})
			continue
		}
		if err != nil {
			w.Count("configurations_refused", 1)
			continue // only configurations the policy accepts are judged
		}
		if len(s.cfgs) == 2 {
			x.evIndex = -1
			rp := x.step("reconf:1")
			if rp.panic != "" {
				w.Report(mc.Violation{Property: "C14", Oracle: "panic", Signature: "panic@" + rp.where + ":reconf", Scenario: s.name, Detail: rp.panic})
				continue
			}
			if rp.err != nil {
				w.Count("updates_refused", 1)
				continue
			}
			w.Count("updates_accepted", 1)
		}
		accepted++
		post := x.snapshot()
		for _, v := range c16JudgeTree(s, x, post) {
			w.Report(v)
		}
		if len(s.cfgs) == 2 {
			// differential: the same pools as a fresh start with the second configuration
			fresh := &scenario{name: s.name + "/fresh", policy: s.policy, machine: s.machine, cfgs: []cfgSpec{s.cfgs[1]}, maxInc: 1}
			if fx, err := newExec(fresh, scratchDir()); err == nil {
				render := func(sn *snap) string {
					var l []string
					for _, p := range sn.TA.Pools {
						l = append(l, fmt.Sprintf("%s<-%s cpus=%s mems=%s", p.Name, p.Parent, p.CPUs, p.Mems))
					}
					sort.Strings(l)
					return strings.Join(l, "; ")
				}
				if a, b := render(post), render(fx.snapshot()); a != b {
					w.Report(mc.Violation{Property: "C16", Oracle: "tree-after-update", Signature: "tree:differs-from-fresh-start", Scenario: s.name,
						Trace:  []string{fmt.Sprintf("machine %+v: start with %s, update to %s", *s.machine, s.cfgs[0].label, s.cfgs[1].label)},
						Detail: fmt.Sprintf("after the accepted update the pools are\n  %s\na fresh start with the same configuration builds\n  %s", a, b)})
				}
			}
		}
		if len(s.machine.Extras) > 0 || len(s.machine.Isolated) > 0 || s.machine.NodeMemKB != nil || len(post.TA.Pools) > 3 {
			w.Res.Nontrivial++
		}
		if i%61 == 0 {
			names := []string{}
			for _, p := range post.TA.Pools {
				names = append(names, fmt.Sprintf("%s<-%s cpus=%s mems=%s", p.Name, p.Parent, p.CPUs, p.Mems))
			}
			w.Sample(map[string]any{"machine": s.machine.Name, "config": s.cfgs[0].label, "pools": names})
		}
	}
	w.Count("configurations_accepted", int64(accepted))
}

func c16JudgeTree(s *scenario, x *exec, post *snap) []mc.Violation {
	v := &viols{prop: "C16", scn: s.name, trace: []string{fmt.Sprintf("machine %+v config %s", *s.machine, s.name[strings.LastIndex(s.name, "/")+1:])}}
	m := s.machine.Model()
	pools := post.TA.Pools
	byName := map[string]int{}
	for i, p := range pools {
		byName[p.Name] = i
	}
	zone := map[string]zoneSnap{}
	for _, z := range post.Zones {
		zone[z.Name] = z
	}
	// --- single tree
	roots := []string{}
	for _, p := range pools {
		if p.Parent == "" {
			roots = append(roots, p.Name)
		} else if _, ok := byName[p.Parent]; !ok {
			v.add("parent-missing", "tree:parent-missing", "pool %s has parent %q which is not a pool", p.Name, p.Parent)
		}
		if z, ok := zone[p.Name]; !ok || z.Parent != p.Parent {
			v.add("zone-parent", "tree:zone-parent", "pool %s: zone parent %q differs from pool parent %q", p.Name, z.Parent, p.Parent)
		}
	}
	if len(roots) != 1 {
		v.add("single-root", "tree:single-root", "pools with no parent: %v", roots)
		return v.out
	}
	root := pools[byName[roots[0]]]
	for _, p := range pools {
		seen := map[string]bool{}
		for n := p.Name; n != ""; n = pools[byName[n]].Parent {
			if seen[n] {
				v.add("cycle", "tree:cycle", "cycle through pool %s", n)
				return v.out
			}
			seen[n] = true
		}
	}
	// --- virtual root iff several sockets
	sockets := map[int]bool{}
	for _, c := range m.CPUs {
		if c.Online {
			sockets[c.Pkg] = true
		}
	}
	if (root.Kind == "virtual node") != (len(sockets) > 1) {
		v.add("virtual-root", "tree:virtual-root", "root pool %s is of kind %q on a machine with %d sockets", root.Name, root.Kind, len(sockets))
	}
	kindRank := map[string]int{"virtual node": 0, "socket": 1, "die": 2, "numa node": 3}
	avail := x.availableCPUs()
	for _, p := range pools {
		pc := parseSet(p.CPUs)
		iso, rsv, shr := parseSet(p.TotalIsolated), parseSet(p.TotalReserved), parseSet(p.TotalSharable)
		if !iso.Intersection(rsv).IsEmpty() || !iso.Intersection(shr).IsEmpty() || !rsv.Intersection(shr).IsEmpty() {
			v.add("cpu-classes-overlap", "pool:cpu-classes-overlap", "pool %s: isolated %s, reserved %s, sharable %s are not disjoint", p.Name, iso, rsv, shr)
		}
		if z := zone[p.Name]; z.Attr["shared cpuset"] != p.FreeSharable {
			v.add("zone-shared", "pool:zone-shared", "pool %s: zone shared cpuset %q, pool %q", p.Name, z.Attr["shared cpuset"], p.FreeSharable)
		}
		if p.Parent != "" {
			par := pools[byName[p.Parent]]
			if !pc.IsSubsetOf(parseSet(par.CPUs)) {
				v.add("child-cpus-not-in-parent", "tree:child-cpus-not-in-parent", "pool %s cpus %s are not contained in parent %s cpus %s", p.Name, pc, par.Name, par.CPUs)
			}
			if kindRank[p.Kind] <= kindRank[par.Kind] {
				v.add("level-order", "tree:level-order", "pool %s (%s) is a child of %s (%s)", p.Name, p.Kind, par.Name, par.Kind)
			}
			if !parseSet(p.Mems).IsSubsetOf(parseSet(par.Mems)) {
				v.add("child-mems-not-in-parent", "tree:child-mems-not-in-parent", "pool %s memory nodes %s are not a subset of parent %s memory nodes %s", p.Name, p.Mems, par.Name, par.Mems)
			}
		}
		// siblings disjoint, redundant levels omitted
		var kids []VerifPoolT
		for _, c := range p.Children {
			kids = append(kids, pools[byName[c]])
		}
		for i, a := range kids {
			for _, b := range kids[i+1:] {
				if common := parseSet(a.CPUs).Intersection(parseSet(b.CPUs)); !common.IsEmpty() {
					v.add("siblings-overlap", "tree:siblings-overlap", "sibling pools %s and %s share CPUs %s", a.Name, b.Name, common)
				}
			}
		}
		if len(kids) == 1 && kids[0].CPUs == p.CPUs && kids[0].Mems == p.Mems {
			v.add("redundant-level", "tree:redundant-level", "pool %s has the single child %s with identical resources", p.Name, kids[0].Name)
		}
		if z := zone[p.Name]; z.Attr["memory set"] != p.Mems {
			v.add("zone-memset", "pool:zone-memset", "pool %s: zone memory set %q, pool %q", p.Name, z.Attr["memory set"], p.Mems)
		}
	}
	if rc := parseSet(root.CPUs); !c08eq(rc, avail) {
		v.add("root-cpus", "tree:root-cpus", "root pool %s holds CPUs %s, the available CPUs are %s", root.Name, rc, avail)
	}
	// --- memory
	withMem := []int{}
	for _, n := range m.Nodes {
		if n.MemKB > 0 {
			withMem = append(withMem, n.ID)
		}
	}
	if got := parseSet(root.Mems); !c08eq(got, cpuset.New(withMem...)) {
		v.add("root-mems", "mem:root-mems", "root pool %s has memory nodes %s, nodes with memory are %v", root.Name, got, withMem)
	}
	// topological CPU set of a pool, from its name
	topo := func(p VerifPoolT) cpuset.CPUSet {
		ids := []int{}
		for _, c := range m.CPUs {
			if !c.Online {
				continue
			}
			var a, b int
			switch {
			case p.Kind == "virtual node":
				ids = append(ids, c.ID)
			case p.Kind == "socket":
				fmt.Sscanf(p.Name, "socket #%d", &a)
				if c.Pkg == a {
					ids = append(ids, c.ID)
				}
			case p.Kind == "die":
				fmt.Sscanf(p.Name, "die #%d/%d", &a, &b)
				if c.Pkg == a && c.Die == b {
					ids = append(ids, c.ID)
				}
			case p.Kind == "numa node":
				fmt.Sscanf(p.Name, "NUMA node #%d", &a)
				if c.Node == a {
					ids = append(ids, c.ID)
				}
			}
		}
		return cpuset.New(ids...)
	}
	for _, e := range m.Nodes {
		if !e.Extra || e.MemKB == 0 {
			continue
		}
		// closest CPU-bearing DRAM nodes
		best := -1
		var closest []int
		for _, n := range m.Nodes {
			if n.Extra || len(n.CPUs) == 0 {
				continue
			}
			d := e.Distance[n.ID]
			if best < 0 || d < best {
				best, closest = d, []int{n.ID}
			} else if d == best {
				closest = append(closest, n.ID)
			}
		}
		for _, p := range pools {
			if p.Parent == "" {
				continue
			}
			want := false
			tc := topo(p)
			for _, n := range closest {
				if !cpuset.New(m.Nodes[n].CPUs...).Intersection(tc).IsEmpty() {
					want = true
				}
			}
			if has := parseSet(p.Mems).Contains(e.ID); has != want {
				v.add("special-memory-attachment", "mem:special-memory-attachment", "CPU-less memory node %d (closest CPU-bearing DRAM nodes %v): pool %s (cpus %s) memory set %s, expected attached=%v", e.ID, closest, p.Name, tc, p.Mems, want)
			}
		}
	}
	return v.out
}
