//go:build verif

package resmgr

import (
	"fmt"
	"os"
	"path/filepath"
	"strings"
	"testing"

	"github.com/containers/nri-plugins/pkg/verif/mc"
)

type oracleFn func(x *exec, v *viols, pre, post *snap, rp *reply)

type propDef struct {
	id        string
	oracles   []oracleFn
	scenarios func(thorough bool) []*scenario
	needPre   bool
	nontriv   func(x *exec, post *snap) bool
	post      func(w *mc.Worker, s *scenario, dir string, trace []string, x *exec, post *snap) []mc.Violation // extra per-state oracle (e.g. drain)
}

var verifDirSeq int

func scratchDir() string {
	base := os.Getenv("VERIF_SCRATCH")
	if base == "" {
		base = os.TempDir()
	}
	return filepath.Join(base, "state")
}

// runTrace executes prefix+trace on a fresh instance and judges the last event of trace.
func runTrace(pd *propDef, s *scenario, trace []string, judge bool) (st mc.Step, x *exec, post *snap) {
	dir := scratchDir()
	var err error
	pan, msg, where := mc.Guard(func() { x, err = newExec(s, dir) })
	if pan || err != nil {
		if pan {
			err = fmt.Errorf("panic %s at %s", msg, where)
		}
		st.Key = "setup-failed"
		st.Stop = true
		st.Violations = []mc.Violation{{Property: pd.id, Oracle: "harness-setup", Signature: "harness-setup-failed", Scenario: s.name, Detail: err.Error()}}
		return st, nil, nil
	}
	v := &viols{prop: pd.id, scn: s.name, trace: trace}
	x.evIndex = -1
	for _, ev := range s.prefix {
		rp := x.step(ev)
		if rp.panic != "" {
			v.prop = "C14"
			v.add("panic", "panic@"+rp.where+":"+strings.Split(ev, ":")[0], "setup event %s panics: %s", ev, rp.panic)
			st.Key, st.Stop, st.Violations = "panic", true, v.out
			return st, x, nil
		}
	}
	x.log = nil
	var pre *snap
	var rp *reply
	for i, ev := range trace {
		last := i == len(trace)-1
		if last {
			pre = x.snapshot()
			x.preSnap = pre
			st.ParentKey = pre.key()
			x.log = nil
		}
		x.evIndex = i
		rp = x.step(ev)
		if rp.panic != "" {
			if last {
				pv := &viols{prop: "C14", scn: s.name, trace: trace}
				pv.add("panic", "panic@"+rp.where+":"+strings.Split(ev, ":")[0], "%s panics: %s", ev, rp.panic)
				st.Violations = append(st.Violations, pv.out...)
			}
			st.Key = "dead:" + strings.Join(trace[:i+1], ",")
			st.Stop = true
			st.Outcome = "panic"
			return st, x, nil
		}
	}
	post = x.snapshot()
	st.Key = post.key()
	st.Enabled = x.enabled()
	if len(trace) == 0 {
		st.ParentKey = ""
		return st, x, post
	}
	errS := "ok"
	if rp.err != nil {
		errS = "err"
	}
	st.Outcome = fmt.Sprintf("%s/%s/%d/%d", strings.Split(rp.ev, ":")[0], errS, len(rp.updates), len(rp.pushed))
	verifCounters["requests_"+strings.Split(rp.ev, ":")[0]+"_"+errS]++
	if len(rp.updates)+len(rp.pushed) > 0 {
		verifCounters["replies_updating_other_containers"]++
	}
	if judge {
		for _, o := range pd.oracles {
			o(x, v, pre, post, rp)
		}
		st.Violations = append(st.Violations, v.out...)
	}
	if pd.nontriv != nil {
		st.Nontrivial = pd.nontriv(x, post)
	} else {
		st.Nontrivial = len(x.liveCtrs()) >= 2
	}
	return st, x, post
}

func runProp(t *testing.T, pd *propDef) {
	w := mc.NewWorker(t, pd.id)
	defer w.Finish()
	scs := pd.scenarios(w.Thorough())
	byName := map[string]*scenario{}
	for _, s := range scs {
		byName[s.name] = s
	}
	w.Replayer = func(sc string, trace []string) []mc.Violation {
		s := byName[sc]
		if s == nil {
			return nil
		}
		st, x, post := runTrace(pd, s, trace, true)
		out := st.Violations
		if pd.post != nil && x != nil && post != nil {
			out = append(out, pd.post(w, s, scratchDir(), trace, x, post)...)
		}
		return out
	}
	if w.ReplayV != nil {
		for _, v := range w.Replayer(w.ReplayV.Scenario, w.ReplayV.Trace) {
			t.Logf("REPLAY %s %s: %s", v.Property, v.Signature, v.Detail)
			w.Res.Violations = append(w.Res.Violations, v)
		}
		return
	}
	if only := os.Getenv("VERIF_SCENARIO"); only != "" {
		var f []*scenario
		for _, s := range scs {
			if strings.Contains(s.name, only) {
				f = append(f, s)
			}
		}
		scs = f
	}
	for i, s := range scs {
		if !w.Mine(i) {
			continue
		}
		depth := s.depth
		if d := os.Getenv("VERIF_DEPTH"); d != "" {
			fmt.Sscanf(d, "%d", &depth)
		}
		ex := &mc.Explorer{W: w, Scenario: s.name, Depth: depth, Run: func(tr []string) mc.Step {
			st, x, post := runTrace(pd, s, tr, true)
			if pd.post != nil && x != nil && post != nil {
				st.Violations = append(st.Violations, pd.post(w, s, scratchDir(), tr, x, post)...)
			}
			return st
		}}
		states, trans, d := ex.Explore()
		for k, n := range verifCounters {
			w.Count(k, n)
			delete(verifCounters, k)
		}
		w.Note("%s: states=%d transitions=%d depth=%d/%d", s.name, states, trans, d, depth)
	}
}

var propC01 = &propDef{id: "C01", oracles: []oracleFn{oracleC01}, scenarios: taScenarios,
	nontriv: func(x *exec, post *snap) bool {
		n := 0
		for _, g := range post.TA.Grants {
			if g.ExclusiveCount > 0 {
				n++
			}
		}
		return n >= 1 && len(post.TA.Grants) >= 2
	}}

var propC03 = &propDef{id: "C03", oracles: []oracleFn{oracleC03}, scenarios: taScenarios}
var propC05 = &propDef{id: "C05", oracles: []oracleFn{oracleC05}, scenarios: bothScenarios}

func bothScenarios(thorough bool) []*scenario {
	return append(taScenarios(thorough), blScenarios(thorough)...)
}

func TestVerifC01(t *testing.T) { runProp(t, propC01) }
func TestVerifC03(t *testing.T) { runProp(t, propC03) }
func TestVerifC05(t *testing.T) { runProp(t, propC05) }

var propC09 = &propDef{id: "C09", oracles: []oracleFn{oracleC09}, scenarios: c09Scenarios, post: drainC09}

func TestVerifC09(t *testing.T) { runProp(t, propC09) }

var propC02 = &propDef{id: "C02", oracles: []oracleFn{oracleC02}, scenarios: blScenarios}

func TestVerifC02(t *testing.T) { runProp(t, propC02) }

var propC04 = &propDef{id: "C04", oracles: []oracleFn{oracleC04}, scenarios: c04Scenarios,
	nontriv: func(x *exec, post *snap) bool { return len(post.MemReqs) >= 2 }}

func TestVerifC04(t *testing.T) { runProp(t, propC04) }

var propC12 = &propDef{id: "C12", oracles: []oracleFn{oracleC12}, scenarios: c12Scenarios}

func TestVerifC12(t *testing.T) { runProp(t, propC12) }

var propC13 = &propDef{id: "C13", oracles: []oracleFn{oracleC13}, scenarios: c13Scenarios}

func init() { propC13.post = twinC13(propC13) }

func TestVerifC13(t *testing.T) { runProp(t, propC13) }

var propC11 = &propDef{id: "C11", oracles: []oracleFn{oracleC11}, scenarios: c11Scenarios}

func TestVerifC11(t *testing.T) { runProp(t, propC11) }

var propC14 = &propDef{id: "C14", oracles: nil, scenarios: c14Scenarios, post: probeC14}

func TestVerifC14(t *testing.T) { runProp(t, propC14) }

// TestVerifC14Inputs: every interpreted annotation key x value menu x form, and every resource shape, through a full container lifecycle.
func TestVerifC14Inputs(t *testing.T) {
	w := mc.NewWorker(t, "C14")
	defer w.Finish()
	cases := c14InputCases(w.Thorough())
	seq := []string{"run:p0", "create:c0", "start:c0", "update:c0:0", "sync", "reconf:0", "stop:c0", "remove:c0", "stoppod:p0", "rmpod:p0"}
	replay := ""
	if w.ReplayV != nil {
		replay = w.ReplayV.Scenario
		w.Replayer = nil
	}
	outcomes := map[string]bool{}
	for i, s := range cases {
		if replay != "" {
			if s.name != replay {
				continue
			}
		} else if !w.Mine(i) {
			continue
		}
		var x *exec
		var err error
		pan, msg, where := mc.Guard(func() { x, err = newExec(s, scratchDir()) })
		if pan || err != nil {
			w.Report(mc.Violation{Property: "C14", Oracle: "setup", Signature: "setup-fails:" + s.policy, Scenario: s.name, Detail: fmt.Sprint(msg, where, err)})
			continue
		}
		x.evIndex = -1
		out := ""
		for _, ev := range seq {
			rp := x.step(ev)
			w.Res.Evaluations++
			if rp.panic != "" {
				w.Report(mc.Violation{Property: "C14", Oracle: "panic", Signature: "panic@" + rp.where + ":" + strings.Split(ev, ":")[0], Scenario: s.name, Trace: []string{ev},
					Detail: fmt.Sprintf("%s with %s panics: %s", ev, s.name, rp.panic)})
				break
			}
			if rp.err != nil {
				out += "E"
			} else {
				out += "."
			}
		}
		outcomes[out] = true
		if !x.in.dead {
			for _, v := range probeC14(w, s, scratchDir(), seq, x, nil) {
				w.Report(v)
			}
		}
		w.Res.Nontrivial++
		if i%97 == 0 {
			w.Sample(map[string]any{"case": s.name, "outcome": out})
		}
	}
	w.Res.Outcomes = int64(len(outcomes))
}

// TestVerifC19Balloons: which balloon type a created container lands in, for every order of the configured types.
func TestVerifC19Balloons(t *testing.T) {
	w := mc.NewWorker(t, "C19")
	defer w.Finish()
	w.Replayer = nil
	cases := c19BalloonCases(w.Thorough())
	replay := ""
	if w.ReplayV != nil {
		replay = w.ReplayV.Scenario
	}
	outcomes := map[string]bool{}
	for i, cs := range cases {
		if replay != "" {
			if cs.s.name != replay {
				continue
			}
		} else if !w.Mine(i) {
			continue
		}
		var x *exec
		var err error
		pan, msg, where := mc.Guard(func() { x, err = newExec(cs.s, scratchDir()) })
		if pan || err != nil {
			w.Report(mc.Violation{Property: "C19", Oracle: "setup", Signature: "setup-fails", Scenario: cs.s.name, Detail: fmt.Sprint(msg, where, err)})
			continue
		}
		x.evIndex = -1
		x.step("run:p0")
		rp := x.step("create:c0")
		w.Res.Evaluations++
		if rp.panic != "" {
			w.Report(mc.Violation{Property: "C14", Oracle: "panic", Signature: "panic@" + rp.where + ":create", Scenario: cs.s.name, Trace: []string{"run:p0", "create:c0"}, Detail: rp.panic})
			continue
		}
		post := x.snapshot()
		got := x.balloonDefOf(x.w.ctrs[0], post)
		if rp.err != nil {
			got = "<error>"
		}
		// the public observable: the zone the container sub-zone hangs under
		zoneDef := ""
		for _, z := range post.Zones {
			if z.Type == "allocation for container" && strings.HasSuffix(z.Name, "/"+x.w.ctrs[0].spec.name) {
				zoneDef = strings.Split(z.Parent, "[")[0]
			}
		}
		outcomes[got] = true
		w.Res.Nontrivial++
		if got != cs.want {
			w.Report(mc.Violation{Property: "C19", Oracle: "balloon-type-selection", Signature: "balloon-type-selection:" + cs.kind, Scenario: cs.s.name, Trace: []string{"run:p0", "create:c0"},
				Detail: fmt.Sprintf("container kind %q with types in order %v lands in %q, expected %q (error: %v)", cs.kind, cs.order, got, cs.want, rp.err)})
		} else if rp.err == nil && zoneDef != got {
			w.Report(mc.Violation{Property: "C19", Oracle: "zone-differs-from-membership", Signature: "zone-differs-from-membership", Scenario: cs.s.name, Trace: []string{"run:p0", "create:c0"},
				Detail: fmt.Sprintf("container is a member of a %q balloon but its topology sub-zone hangs under %q", got, zoneDef)})
		}
		if i%17 == 0 {
			w.Sample(map[string]any{"types": cs.order, "container": cs.kind, "balloon_type": got})
		}
	}
	w.Res.Outcomes = int64(len(outcomes))
}
