//go:build verif && verif_nopush

package resmgr

// pushPending fallback: the internal push function changed shape; pending changes stay in the cache and are delivered with
// the reply of the next request (getPendingUpdates), which the told-view oracles then see.
func pushPending(m *resmgr) error { return nil }

const pushAdapted = true
