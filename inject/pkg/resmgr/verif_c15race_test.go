//go:build verif

package resmgr

// C15, free-running corroboration pass. The controlled scheduler's hand-offs are happens-before edges, so the race
// detector is blind under it; and the scheduler only switches at lock operations, proxied cache/policy calls and channel
// operations. This pass runs the SAME menus with real goroutines and no scheduler in a binary built with -race, so that
// unsynchronised accesses between those points (plugin fields the proxies do not cover, replies aliasing plugin state)
// are reported by the race detector. It samples schedules - it decides nothing; a report is a violation, silence is not
// counted as coverage of the property.

import (
	"context"
	"encoding/json"
	"fmt"
	"os"
	"path/filepath"
	"regexp"
	"strings"
	"sync"
	"testing"

	"github.com/containerd/nri/pkg/api"

	instrmetrics "github.com/containers/nri-plugins/pkg/instrumentation/metrics"
	"github.com/containers/nri-plugins/pkg/verif/mc"
)

// prepare builds the messages of one event from the current world and returns a closure that delivers it and then
// consumes the reply (as the transport would, after the handler has returned). The closure touches no harness state.
func (x *exec) prepare(ev string) func() {
	f := strings.Split(ev, ":")
	w, p := x.w, x.in.m.nri
	ctx := context.Background()
	consume := func(v ...any) { json.Marshal(v) }
	switch f[0] {
	case "run":
		pod := w.pod(f[1]).nri()
		return func() { p.RunPodSandbox(ctx, pod) }
	case "stoppod":
		pod := w.pod(f[1]).nri()
		return func() { p.StopPodSandbox(ctx, pod) }
	case "rmpod":
		pod := w.pod(f[1]).nri()
		return func() { p.RemovePodSandbox(ctx, pod) }
	case "create":
		c := w.ctr(f[1])
		t := c.spec.t
		init := resFromNRI(encodeRes(updSpec{cpuReq: t.cpuReq, cpuLim: t.cpuLim, memLim: t.memLim}, res{Cpus: t.initCpus, Mems: t.initMems}))
		pod, msg := c.pod.nri(), c.nri(api.ContainerState_CONTAINER_CREATED, init)
		return func() { a, u, _ := p.CreateContainer(ctx, pod, msg); consume(a, u) }
	case "start":
		c := w.ctr(f[1])
		pod, msg := c.pod.nri(), c.nri(api.ContainerState_CONTAINER_CREATED, c.told)
		return func() { p.StartContainer(ctx, pod, msg) }
	case "update":
		c := w.ctr(f[1])
		var idx int
		fmt.Sscanf(f[2], "%d", &idx)
		r := encodeRes(x.scn.updates[idx], res{})
		pod, msg := c.pod.nri(), c.nri(api.ContainerState_CONTAINER_RUNNING, c.told)
		return func() { u, _ := p.UpdateContainer(ctx, pod, msg, r); consume(u) }
	case "stop":
		c := w.ctr(f[1])
		pod, msg := c.pod.nri(), c.nri(api.ContainerState_CONTAINER_RUNNING, c.told)
		return func() { u, _ := p.StopContainer(ctx, pod, msg); consume(u) }
	case "remove":
		c := w.ctr(f[1])
		pod, msg := c.pod.nri(), c.nri(api.ContainerState_CONTAINER_STOPPED, c.told)
		return func() { p.RemoveContainer(ctx, pod, msg) }
	case "sync":
		pods, ctrs := x.frozenLists()
		return func() { u, _ := p.Synchronize(ctx, pods, ctrs); consume(u) }
	case "reconf":
		var idx int
		fmt.Sscanf(f[1], "%d", &idx)
		cfg := x.scn.cfgs[idx].build()
		return func() { x.in.m.reconfigure(cfg) }
	}
	panic("prepare: unknown event " + ev)
}

var raceFrame = regexp.MustCompile(`(?m)^  (\S+)\(\)$`)

func TestVerifC15Race(t *testing.T) {
	w := mc.NewWorker(t, "C15")
	defer w.Finish()
	w.Replayer = nil
	dir := scratchDir()
	logBase := os.Getenv("VERIF_RACE_LOG")
	iters := 30
	if w.Thorough() {
		iters = 300
	}
	menus := c15Menus(w.Thorough())
	readReports := func() []string {
		var reps []string
		files, _ := filepath.Glob(logBase + ".*")
		for _, f := range files {
			data, _ := os.ReadFile(f)
			for _, blk := range strings.Split(string(data), "==================") {
				if strings.Contains(blk, "WARNING: DATA RACE") {
					reps = append(reps, blk)
				}
			}
			os.Truncate(f, 0)
		}
		return reps
	}
	for i := range menus {
		mn := &menus[i]
		if !w.Mine(i) {
			continue
		}
		for it := 0; it < iters; it++ {
			x, err := newExec(mn.s, dir)
			if err != nil {
				t.Fatalf("%v", err)
			}
			x.evIndex = -1
			for _, ev := range append(append([]string{}, mn.s.prefix...), mn.setup...) {
				x.step(ev)
			}
			for _, p := range x.in.m.cache.GetPods() {
				p.GetPodResources()
			}
			x.freezeSync()
			instrmetrics.VerifSetGatherer(mn.exporter)
			x.in.stub.onUpdate = func(u []*api.ContainerUpdate) { json.Marshal(u) }
			var bodies [][]func()
			for _, evs := range mn.threads {
				var b []func()
				for _, ev := range evs {
					b = append(b, x.prepare(ev))
				}
				bodies = append(bodies, b)
			}
			var wg sync.WaitGroup
			var stuckMu sync.Mutex
			stuck := ""
			start := make(chan struct{})
			for _, b := range bodies {
				b := b
				wg.Add(1)
				go func() {
					defer wg.Done()
					<-start
					for _, fn := range b {
						if p, msg, _ := mc.Guard(fn); p && strings.Contains(msg, "vsync: the lock is still held") {
							stuckMu.Lock()
							stuck = msg
							stuckMu.Unlock()
						}
					}
				}()
			}
			close(start)
			wg.Wait()
			instrmetrics.VerifSetGatherer(false)
			w.Res.Evaluations++
			w.Res.Nontrivial++
			if stuck != "" {
				w.Report(mc.Violation{Property: "C15", Oracle: "stuck", Signature: "pipeline:free-running-request-stuck", Scenario: mn.name,
					Trace: []string{fmt.Sprintf("setup=%v threads=%v (free-running, iteration %d)", mn.setup, mn.threads, it)}, Detail: stuck})
				break // every further iteration of this menu would wait for the same lock again
			}
			for _, rep := range readReports() {
				// signature: the innermost non-runtime frames of the two accesses
				var frames []string
				for _, m := range raceFrame.FindAllStringSubmatch(rep, -1) {
					fn := m[1]
					if strings.HasPrefix(fn, "runtime.") || strings.HasPrefix(fn, "sync.") || strings.HasPrefix(fn, "encoding/") || strings.HasPrefix(fn, "reflect.") {
						continue
					}
					frames = append(frames, fn[strings.LastIndex(fn, "/")+1:])
					if len(frames) == 2 {
						break
					}
				}
				sig := "pipeline:data-race:" + strings.Join(frames, "~")
				if len(rep) > 3000 {
					rep = rep[:3000]
				}
				w.Report(mc.Violation{Property: "C15", Oracle: "race-detector", Signature: sig, Scenario: mn.name,
					Trace: []string{fmt.Sprintf("setup=%v threads=%v (free-running, iteration %d)", mn.setup, mn.threads, it)}, Detail: rep})
			}
		}
		w.Res.Scenarios++
	}
	w.Count("c15_race_pass_executions", w.Res.Evaluations)
	w.Res.Outcomes = 1
}
