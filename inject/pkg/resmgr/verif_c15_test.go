//go:build verif

package resmgr

// C15, pipeline harness: concurrent delivery of NRI requests and
// configuration updates to a real resource manager under the controlled
// scheduler. The resource manager's RWMutex is the scheduler-aware shim (vgen
// redirects the sync import of resource-manager.go); its cache and policy are
// wrapped by proxies that are scheduling points and check lock discipline.

import (
	"context"
	"encoding/json"
	"fmt"
	"os"
	"sort"
	"strings"
	"testing"

	"github.com/containerd/nri/pkg/api"

	"github.com/containers/nri-plugins/pkg/agent/podresapi"
	resmgrapi "github.com/containers/nri-plugins/pkg/apis/resmgr/v1alpha1"
	instrmetrics "github.com/containers/nri-plugins/pkg/instrumentation/metrics"
	"github.com/containers/nri-plugins/pkg/resmgr/cache"
	"github.com/containers/nri-plugins/pkg/resmgr/events"
	"github.com/containers/nri-plugins/pkg/resmgr/policy"
	"github.com/containers/nri-plugins/pkg/verif/mc"
	"github.com/containers/nri-plugins/pkg/verif/sched"
	"github.com/containers/nri-plugins/pkg/verif/vsync"
)

type c15Monitor struct {
	m          *resmgr
	violations map[string]string // access -> detail (first occurrence)
	accesses   int
	stalePush  []string // unsolicited updates that no longer matched the cache when they reached the runtime
}

func (mon *c15Monitor) access(what string) {
	t := sched.Current()
	if t == nil {
		return
	}
	sched.Point(what)
	mon.accesses++
	if !vsync.HeldBy(&mon.m.RWMutex, t) {
		key := strings.Split(t.Name, "/")[0] + " -> " + what
		if _, ok := mon.violations[key]; !ok {
			mon.violations[key] = fmt.Sprintf("thread %q calls %s without holding the resource manager lock", t.Name, what)
		}
	}
}

type c15Cache struct {
	cache.Cache
	mon *c15Monitor
}

func (c *c15Cache) InsertPod(p *api.PodSandbox, ch <-chan *podresapi.PodResources) cache.Pod {
	c.mon.access("cache.InsertPod")
	return c.Cache.InsertPod(p, ch)
}
func (c *c15Cache) DeletePod(id string) cache.Pod {
	c.mon.access("cache.DeletePod")
	return c.Cache.DeletePod(id)
}
func (c *c15Cache) LookupPod(id string) (cache.Pod, bool) {
	c.mon.access("cache.LookupPod")
	return c.Cache.LookupPod(id)
}
func (c *c15Cache) InsertContainer(ctr *api.Container, o ...cache.InsertContainerOption) (cache.Container, error) {
	c.mon.access("cache.InsertContainer")
	return c.Cache.InsertContainer(ctr, o...)
}
func (c *c15Cache) DeleteContainer(id string) cache.Container {
	c.mon.access("cache.DeleteContainer")
	return c.Cache.DeleteContainer(id)
}
func (c *c15Cache) LookupContainer(id string) (cache.Container, bool) {
	c.mon.access("cache.LookupContainer")
	return c.Cache.LookupContainer(id)
}
func (c *c15Cache) GetPendingContainers() []cache.Container {
	c.mon.access("cache.GetPendingContainers")
	return c.Cache.GetPendingContainers()
}
func (c *c15Cache) GetPods() []cache.Pod { c.mon.access("cache.GetPods"); return c.Cache.GetPods() }
func (c *c15Cache) GetContainers() []cache.Container {
	c.mon.access("cache.GetContainers")
	return c.Cache.GetContainers()
}
func (c *c15Cache) FilterScope(e *resmgrapi.Expression) []cache.Container {
	c.mon.access("cache.FilterScope")
	return c.Cache.FilterScope(e)
}
func (c *c15Cache) Save() error { c.mon.access("cache.Save"); return c.Cache.Save() }
func (c *c15Cache) RefreshPods(p []*api.PodSandbox, ch <-chan *podresapi.PodResourcesList) ([]cache.Pod, []cache.Pod, []cache.Container) {
	c.mon.access("cache.RefreshPods")
	return c.Cache.RefreshPods(p, ch)
}
func (c *c15Cache) RefreshContainers(l []*api.Container) ([]cache.Container, []cache.Container) {
	c.mon.access("cache.RefreshContainers")
	return c.Cache.RefreshContainers(l)
}
func (c *c15Cache) ContainerDirectory(id string) string {
	c.mon.access("cache.ContainerDirectory")
	return c.Cache.ContainerDirectory(id)
}

type c15Policy struct {
	policy.Policy
	mon *c15Monitor
}

func (p *c15Policy) Reconfigure(c interface{}) error {
	p.mon.access("policy.Reconfigure")
	return p.Policy.Reconfigure(c)
}
func (p *c15Policy) Sync(a, d []cache.Container) error {
	p.mon.access("policy.Sync")
	return p.Policy.Sync(a, d)
}
func (p *c15Policy) AllocateResources(c cache.Container) error {
	p.mon.access("policy.AllocateResources")
	return p.Policy.AllocateResources(c)
}
func (p *c15Policy) ReleaseResources(c cache.Container) error {
	p.mon.access("policy.ReleaseResources")
	return p.Policy.ReleaseResources(c)
}
func (p *c15Policy) UpdateResources(c cache.Container) error {
	p.mon.access("policy.UpdateResources")
	return p.Policy.UpdateResources(c)
}
func (p *c15Policy) HandleEvent(e *events.Policy) (bool, error) {
	p.mon.access("policy.HandleEvent")
	return p.Policy.HandleEvent(e)
}
func (p *c15Policy) ExportResourceData(c cache.Container) {
	p.mon.access("policy.ExportResourceData")
	p.Policy.ExportResourceData(c)
}
func (p *c15Policy) GetTopologyZones() []*policy.TopologyZone {
	p.mon.access("policy.GetTopologyZones")
	return p.Policy.GetTopologyZones()
}

type c15Menu struct {
	exporter bool // prometheus export on: every handler also takes the metrics gatherer lock
	name     string
	s        *scenario
	setup    []string   // sequential prefix (after the scenario prefix)
	threads  [][]string // one event list per logical thread
}

func c15Menus(thorough bool) []c15Menu {
	ups := []updSpec{{label: "to-1500m", cpuReq: 1500, cpuLim: 1500, memLim: 100 * miB}}
	ta := func() *scenario {
		s := &scenario{name: "ta/c15", policy: polTA, machine: machine8(), cfgs: []cfgSpec{taCfg("rsv750m"), taCfg("rsv-cpuset", taReserved("cpuset:0")), taCfg("avail-0-5", taAvailable("cpuset:0-5"), taReserved("cpuset:0")), taCfg("refused-reserved-outside", taReserved("cpuset:15"))},
			pods: pods(tG2, tB500, tG1), updates: ups, maxInc: 1}
		s.prefix = runAll(2) // p2 is not running yet
		return s
	}
	bl := func() *scenario {
		defs := dynShareDefs()
		s := &scenario{name: "bl/c15", policy: polBalloons, machine: machine8(), cfgs: []cfgSpec{blCfg("dyn", defs), blCfg("dyn2", defs, blIdleClass("idle")), blCfg("dyn-avail-0-5", defs, blAvailable("cpuset:0-5")), blCfg("refused-min-above-max", []*blDef{{Name: "dyn1", MinCpus: 3, MaxCpus: 2}})},
			pods: []podSpec{nsPod("a", "dyn1", tG2, nil), nsPod("b", "share", tB500, nil), nsPod("c", "dyn1", tG1, nil)}, updates: ups, maxInc: 1}
		s.prefix = runAll(2)
		return s
	}
	var out []c15Menu
	for _, mk := range []func() *scenario{ta, bl} {
		pol := mk().policy
		add := func(name string, setup []string, threads ...[]string) {
			out = append(out, c15Menu{name: pol + "/" + name, s: mk(), setup: setup, threads: threads})
		}
		add("create||create", nil, []string{"create:c0"}, []string{"create:c1"})
		add("create||stop", []string{"create:c0"}, []string{"create:c1"}, []string{"stop:c0"})
		add("create||reconf", []string{"create:c0"}, []string{"create:c1"}, []string{"reconf:1"})
		// a configuration the policy refuses (the old one is put back), next to a request: every exit of the update
		// must leave the pipeline usable
		add("create||reconf-refused", []string{"create:c0"}, []string{"create:c1"}, []string{"reconf:3"})
		add("stoppod||create", []string{"create:c0", "stop:c0"}, []string{"stoppod:p0"}, []string{"create:c1"})
		add("rmpod||reconf", []string{"create:c0", "stop:c0", "remove:c0", "stoppod:p0"}, []string{"rmpod:p0"}, []string{"reconf:1"})
		add("sync||reconf", []string{"create:c0"}, []string{"sync"}, []string{"reconf:1"})
		add("sync||create", []string{"create:c0"}, []string{"sync"}, []string{"create:c1"})
		add("update||stop", []string{"create:c0", "create:c1"}, []string{"update:c0:0"}, []string{"stop:c1"})
		add("runpod||create", nil, []string{"run:p2"}, []string{"create:c0"})
		add("start||remove||reconf", []string{"create:c0", "create:c1", "stop:c1"}, []string{"start:c0"}, []string{"remove:c1"}, []string{"reconf:1"})
		add("stop,remove||create", []string{"create:c0"}, []string{"stop:c0", "remove:c0"}, []string{"create:c1"})
		// a configuration update that re-assigns an existing shared container (its unsolicited update is not empty) while a
		// request that re-assigns the same container is delivered
		add("create-excl||reconf-avail", []string{"create:c1"}, []string{"create:c0"}, []string{"reconf:2"})
		add("stop-excl||reconf-avail", []string{"create:c1", "create:c0"}, []string{"stop:c0"}, []string{"reconf:2"})
		// the same with the metrics exporter on (a second lock taken by every handler)
		for _, base := range []string{"stoppod||create", "create||reconf", "rmpod||reconf", "sync||reconf", "update||stop"} {
			for i := range out {
				if out[i].name == pol+"/"+base {
					cp := out[i]
					cp.s = mk()
					cp.name += "+exporter"
					cp.exporter = true
					out = append(out, cp)
					break
				}
			}
		}
		if thorough {
			add("create||create||reconf", nil, []string{"create:c0"}, []string{"create:c1"}, []string{"reconf:1"})
			add("stop||stop||sync", []string{"create:c0", "create:c1"}, []string{"stop:c0"}, []string{"stop:c1"}, []string{"sync"})
			add("stoppod||rmpod-other||create", []string{"create:c0", "stop:c0"}, []string{"stoppod:p0"}, []string{"stoppod:p1", "rmpod:p1"}, []string{"run:p2", "create:c2"})
		}
	}
	return out
}

func dynShareDefs() []*blDef {
	return []*blDef{
		{Name: "dyn", Namespaces: []string{"dyn*"}, MinCpus: 1, MaxCpus: 4, PreferNewBalloons: true, ShareIdleCpusInSame: "system"},
		{Name: "share", Namespaces: []string{"share"}, MinBalloons: 1, MinCpus: 1, ShareIdleCpusInSame: "system"},
	}
}

// c15Final renders the state by which executions are compared with sequential orders.
func c15Final(x *exec) string {
	s := x.snapshot()
	d, _ := json.Marshal(struct {
		C any
		Z any
		T any
		B any
		M any
		P any
	}{s.Cache, s.Zones, s.TA, s.BL, s.MemZone, s.Pods})
	return string(d)
}

func c15Setup(mn *c15Menu, dir string) (*exec, *c15Monitor, error) {
	x, err := newExec(mn.s, dir)
	if err != nil {
		return nil, nil, err
	}
	x.evIndex = -1
	for _, ev := range append(append([]string{}, mn.s.prefix...), mn.setup...) {
		if rp := x.step(ev); rp.panic != "" {
			return nil, nil, fmt.Errorf("setup event %s panics: %s", ev, rp.panic)
		}
	}
	// let the fetch goroutines started during the sequential setup finish before exploration starts
	for _, p := range x.in.m.cache.GetPods() {
		p.GetPodResources()
	}
	x.freezeSync()
	if err := instrmetrics.VerifSetGatherer(mn.exporter); err != nil {
		return nil, nil, err
	}
	mon := &c15Monitor{m: x.in.m, violations: map[string]string{}}
	// an unsolicited update must describe the cache as it is when the runtime receives it: if the plugin computed it under
	// the lock but sends it after releasing the lock, another handler can have changed those containers in between and the
	// runtime ends up with a state no sequential order of the requests produces
	raw := x.in.m.cache
	record := x.in.stub.onUpdate
	x.in.stub.onUpdate = func(us []*api.ContainerUpdate) {
		sched.Point("push")
		for _, u := range us {
			c, ok := raw.LookupContainer(u.GetContainerId())
			if !ok {
				continue
			}
			cpu := u.GetLinux().GetResources().GetCpu()
			if cpu.GetCpus() != "" && cpu.GetCpus() != c.GetCpusetCpus() || cpu.GetMems() != "" && cpu.GetMems() != c.GetCpusetMems() {
				mon.stalePush = append(mon.stalePush, fmt.Sprintf("pushed update for %s says cpus=%q mems=%q, the cache now has cpus=%q mems=%q",
					u.GetContainerId(), cpu.GetCpus(), cpu.GetMems(), c.GetCpusetCpus(), c.GetCpusetMems()))
			}
		}
		if record != nil {
			record(us)
		}
	}
	x.in.m.cache = &c15Cache{Cache: x.in.m.cache, mon: mon}
	x.in.m.policy = &c15Policy{Policy: x.in.m.policy, mon: mon}
	return x, mon, nil
}

func permutations(n int) [][]int {
	if n == 1 {
		return [][]int{{0}}
	}
	var out [][]int
	for _, p := range permutations(n - 1) {
		for i := 0; i <= len(p); i++ {
			q := append(append(append([]int{}, p[:i]...), n-1), p[i:]...)
			out = append(out, q)
		}
	}
	return out
}

func TestVerifC15(t *testing.T) {
	w := mc.NewWorker(t, "C15")
	defer w.Finish()
	w.Replayer = nil
	dir := scratchDir()
	menus := c15Menus(w.Thorough())
	bound := 2
	if w.Thorough() {
		bound = 3
	}
	if b := os.Getenv("VERIF_PREEMPTIONS"); b != "" {
		fmt.Sscanf(b, "%d", &bound)
	}
	var replayChoices []int
	replayMenu := ""
	if w.ReplayV != nil {
		replayMenu = w.ReplayV.Scenario
		json.Unmarshal([]byte(w.ReplayV.Trace[len(w.ReplayV.Trace)-1]), &replayChoices)
	}
	outcomes := map[string]bool{}
	for i := range menus {
		mn := &menus[i]
		if replayMenu != "" {
			if mn.name != replayMenu {
				continue
			}
		} else if !w.Mine(i) {
			continue
		}
		// --- sequential reference: every order of the threads (each thread's requests as one block)
		seqFinal := map[string]string{}
		for _, perm := range permutations(len(mn.threads)) {
			x, _, err := c15Setup(mn, dir)
			if err != nil {
				w.Report(mc.Violation{Property: "C15", Oracle: "setup", Signature: "pipeline:setup-fails", Scenario: mn.name, Detail: err.Error()})
				break
			}
			ok := true
			for _, ti := range perm {
				for _, ev := range mn.threads[ti] {
					if rp := x.step(ev); rp.panic != "" {
						ok = false
					}
				}
			}
			if ok {
				seqFinal[c15Final(x)] = fmt.Sprint(perm)
			}
		}
		var x *exec
		var mon *c15Monitor
		finished := 0
		body := func(s *sched.Scheduler) {
			var err error
			x, mon, err = c15Setup(mn, dir)
			if err != nil {
				panic(err)
			}
			finished = 0
			for ti, evs := range mn.threads {
				evs := evs
				s.Thread(fmt.Sprintf("T%d[%s]", ti, strings.Join(evs, ",")), func() {
					for _, ev := range evs {
						rp := x.step(ev)
						if rp.panic != "" {
							panic(fmt.Sprintf("%s: %s at %s", ev, rp.panic, rp.where))
						}
					}
					finished++
				})
			}
			s.Run()
		}
		check := func(s *sched.Scheduler, choices []int) {
			w.Res.Evaluations++
			w.Res.Transitions += int64(len(s.Points))
			cj, _ := json.Marshal(choices)
			viol := func(oracle, sig, detail string) {
				w.Report(mc.Violation{Property: "C15", Oracle: oracle, Signature: sig, Scenario: mn.name,
					Trace: []string{fmt.Sprintf("setup=%v threads=%v", mn.setup, mn.threads), string(cj)}, Detail: detail})
			}
			if s.Diverged != "" {
				w.Res.Nondet = append(w.Res.Nondet, mn.name+": "+s.Diverged)
				return
			}
			for _, p := range s.Panics {
				viol("panic", "pipeline:panic:"+mc.PanicSite(p), p)
			}
			keys := make([]string, 0, len(mon.violations))
			for k := range mon.violations {
				keys = append(keys, k)
			}
			sort.Strings(keys)
			for _, k := range keys {
				// signature: handler kind and the accessed object, not the schedule
				kind := strings.SplitN(strings.SplitN(k, "[", 2)[1], "]", 2)[0]
				kind = strings.SplitN(strings.SplitN(kind, ",", 2)[0], ":", 2)[0]
				viol("unlocked-access", "pipeline:unlocked-access:"+kind+":"+strings.SplitN(k, " -> ", 2)[1], mon.violations[k]+fmt.Sprintf(" (schedule %s)", cj))
			}
			for _, sp := range mon.stalePush {
				viol("stale-push", "pipeline:stale-push", sp+fmt.Sprintf(" (schedule %s)", cj))
			}
			for _, rc := range x.replyChanged {
				viol("reply-changed-in-flight", "pipeline:reply-changed-in-flight:"+strings.SplitN(rc, ":", 2)[0], "a reply was rewritten after its handler had returned and released the lock: "+rc+fmt.Sprintf(" (schedule %s)", cj))
			}
			if s.Deadlock {
				viol("deadlock", "pipeline:deadlock", fmt.Sprintf("threads %v never finish under schedule %s", s.Blocked, cj))
				return
			}
			if len(s.Panics) > 0 {
				return
			}
			fin := c15Final(x)
			outcomes[mn.name+mc.Hash(fin)] = true
			if _, ok := seqFinal[fin]; !ok && len(seqFinal) > 0 {
				viol("not-serialisable", "pipeline:not-serialisable", fmt.Sprintf("the final state under schedule %s equals the final state of none of the %d sequential orders", cj, len(seqFinal)))
			}
			w.Count("c15_proxied_accesses", int64(mon.accesses))
		}
		if replayChoices != nil {
			s := sched.New(replayChoices)
			body(s)
			check(s, replayChoices)
			continue
		}
		// iterative bounding: the quick bound is always completed first, so a capped deeper pass still leaves a complete lower bound
		limit := 20000
		if bound > 2 {
			st2 := sched.Explore(2, limit, body, check)
			w.Res.States += int64(st2.Executions)
			if st2.Capped {
				w.Cap("%s: execution cap %d reached at preemption bound 2", mn.name, limit)
			}
			limit = 400000
		}
		st := sched.Explore(bound, limit, body, check)
		w.Res.States += int64(st.Executions)
		w.Res.Scenarios++
		if st.Capped {
			w.Cap("%s: execution cap %d reached at preemption bound %d", mn.name, limit, bound)
		}
		w.Note("%s: schedules=%d max_points=%d preemptions=%v sequential_outcomes=%d bound=%d", mn.name, st.Executions, st.MaxPoints, st.Preempt, len(seqFinal), bound)
		if len(w.Res.Samples) < 3 {
			w.Sample(map[string]any{"menu": mn.name, "setup": mn.setup, "threads": mn.threads, "schedules": st.Executions})
		}
	}
	instrmetrics.VerifSetGatherer(false)
	w.Res.Outcomes = int64(len(outcomes))
	w.Res.Nontrivial = w.Res.States
	_ = context.Background
}
