//go:build verif

package libmem

// Bounded exhaustive exploration of the memory allocator through its public
// API (properties C06 and C07). Every transition replays the whole operation
// sequence on a fresh Allocator; oracles are written against the property
// text and use only public observers.

import (
	"fmt"
	"os"
	"sort"
	"strings"
	"testing"
	"time"

	logger "github.com/containers/nri-plugins/pkg/log"
	"github.com/containers/nri-plugins/pkg/utils/cpuset"
	"github.com/containers/nri-plugins/pkg/verif/mc"
)

type lmNode struct {
	typ    Type
	capa   int64
	normal bool
	cpus   string
}

type lmShape struct {
	id     string
	size   int64
	affin  NodeMask
	types  TypeMask
	strict bool
	prio   Priority
}

type lmRealloc struct {
	nodes NodeMask
	types TypeMask
}

type lmScenario struct {
	name     string
	nodes    []lmNode
	dist     [][]int
	shapes   []lmShape
	reallocs []lmRealloc
	custom   string   // "", "all" (expand to every node of the types at once), "far" (farthest first)
	prefix   []string // events executed before exploration starts (search from a non-initial state)
	less     int      // explore this many levels less than the tier's depth (large node sets are expensive to observe)
}

func (s *lmScenario) build() *Allocator {
	var nodes []*Node
	for i, n := range s.nodes {
		cs := cpuset.New()
		if n.cpus != "" {
			cs = cpuset.MustParse(n.cpus)
		}
		nd, err := NewNode(ID(i), n.typ, n.capa, n.normal, cs, s.dist[i])
		if err != nil {
			panic(err)
		}
		nodes = append(nodes, nd)
	}
	opts := []AllocatorOption{WithNodes(nodes)}
	switch s.custom {
	case "all":
		opts = append(opts, WithCustomFunctions(&CustomFunctions{
			ExpandZone: func(zone NodeMask, types TypeMask, a CustomAllocator) NodeMask {
				return a.GetAllocator().Masks().NodesByTypes(types) &^ zone
			},
		}))
	case "far":
		opts = append(opts, WithCustomFunctions(&CustomFunctions{
			ExpandZone: func(zone NodeMask, types TypeMask, a CustomAllocator) NodeMask {
				// add the single highest-numbered node of the requested types not yet in the zone
				cand := a.GetAllocator().Masks().NodesByTypes(types) &^ zone
				ids := cand.Slice()
				if len(ids) == 0 {
					return 0
				}
				return NewNodeMask(ids[len(ids)-1])
			},
		}))
	}
	a, err := NewAllocator(opts...)
	if err != nil {
		panic(err)
	}
	return a
}

func (s *lmScenario) all() NodeMask { return NodeMask(1)<<uint(len(s.nodes)) - 1 }

func (s *lmScenario) capacity(set NodeMask) int64 {
	var c int64
	for i, n := range s.nodes {
		if set&(1<<uint(i)) != 0 {
			c += n.capa
		}
	}
	return c
}

func (s *lmScenario) typeNodes(t TypeMask) NodeMask {
	var m NodeMask
	for i, n := range s.nodes {
		if t&n.typ.Mask() != 0 {
			m |= 1 << uint(i)
		}
	}
	return m
}

func (s *lmScenario) normalNodes() NodeMask {
	var m NodeMask
	for i, n := range s.nodes {
		if n.normal && n.capa > 0 {
			m |= 1 << uint(i)
		}
	}
	return m
}

func (sh *lmShape) request() *Request {
	opts := []RequestOption{WithName(sh.id), WithPriority(sh.prio)}
	if sh.types != 0 {
		if sh.strict {
			opts = append(opts, WithStrictTypes(sh.types))
		} else {
			opts = append(opts, WithPreferredTypes(sh.types))
		}
	}
	return NewRequest(sh.id, sh.size, sh.affin, opts...)
}

// omega is the public observation of allocator state.
type lmOmega struct {
	zone  map[string]NodeMask
	usage map[NodeMask]int64
	free  map[NodeMask]int64
	reqs  []string // in ForeachRequest (age) order
}

func (s *lmScenario) observe(a *Allocator) *lmOmega {
	o := &lmOmega{zone: map[string]NodeMask{}, usage: map[NodeMask]int64{}, free: map[NodeMask]int64{}}
	for _, sh := range s.shapes {
		if z, ok := a.AssignedZone(sh.id); ok {
			o.zone[sh.id] = z
		}
	}
	for m := NodeMask(1); m <= s.all(); m++ {
		o.usage[m] = a.ZoneUsage(m)
		o.free[m] = a.ZoneFree(m)
	}
	a.ForeachRequest(nil, func(r *Request) bool {
		o.reqs = append(o.reqs, fmt.Sprintf("%s:%d:%s:%d", r.ID(), r.Size(), r.Zone(), r.Priority()))
		return true
	})
	return o
}

func (o *lmOmega) String() string {
	var b strings.Builder
	for _, id := range mc.SortedKeys(o.zone) {
		fmt.Fprintf(&b, "%s=%s ", id, o.zone[id])
	}
	b.WriteString("| ")
	ms := make([]int, 0, len(o.usage))
	for m := range o.usage {
		ms = append(ms, int(m))
	}
	sort.Ints(ms)
	for _, m := range ms {
		fmt.Fprintf(&b, "%d:%d/%d ", m, o.usage[NodeMask(m)], o.free[NodeMask(m)])
	}
	b.WriteString("| ")
	b.WriteString(strings.Join(o.reqs, ","))
	return b.String()
}

type lmOffer struct {
	shape *lmShape
	offer *Offer
	gen   int      // reference generation when the offer was taken
	since []string // successful state-changing operations since the offer was taken
}

type lmResult struct {
	ok      bool
	zone    NodeMask
	updates map[string]NodeMask
	errStr  string
}

func (r lmResult) String() string {
	if !r.ok {
		return "error"
	}
	u := []string{}
	for _, id := range mc.SortedKeys(r.updates) {
		u = append(u, id+"="+r.updates[id].String())
	}
	return fmt.Sprintf("zone=%s updates=[%s]", r.zone, strings.Join(u, ","))
}

// lmExec is one execution of a trace on a fresh allocator.
type lmExec struct {
	s       *lmScenario
	a       *Allocator
	offers  [2]*lmOffer
	gen     int
	live    map[string]*lmShape
	extra   map[string]TypeMask // types added by successful re-allocations (they extend what the request asks for)
	lastRes lmResult
	before  *lmOmega // Ω before the last event
	after   *lmOmega
	lastEv  string
	stamps  []int64
}

func (s *lmScenario) shape(id string) *lmShape {
	for i := range s.shapes {
		if s.shapes[i].id == id {
			return &s.shapes[i]
		}
	}
	return nil
}

func newExec(s *lmScenario) *lmExec {
	return &lmExec{s: s, a: s.build(), live: map[string]*lmShape{}, extra: map[string]TypeMask{}}
}

// bump records a successful state-changing operation: a new generation, remembered by every outstanding offer.
// The operations since an offer was taken are part of the state key: two histories that leave the same allocations
// and an equally stale offer may still differ in what the implementation remembers about that offer (its version
// counter), so they are not merged.
func (x *lmExec) bump(ev string) {
	x.gen++
	for _, o := range x.offers {
		if o != nil {
			o.since = append(o.since, ev)
		}
	}
}

// apply executes one event and returns its result.
func (x *lmExec) apply(ev string) lmResult {
	f := strings.Split(ev, ":")
	var res lmResult
	switch f[0] {
	case "A":
		sh := x.s.shape(f[1])
		req := sh.request()
		x.stamps = append(x.stamps, req.Created())
		z, u, err := x.a.Allocate(req)
		res = lmResult{ok: err == nil, zone: z, updates: u}
		if err == nil {
			x.live[sh.id] = sh
			x.bump(ev)
		} else {
			res.errStr = err.Error()
		}
	case "O":
		sh := x.s.shape(f[1])
		req := sh.request()
		x.stamps = append(x.stamps, req.Created())
		o, err := x.a.GetOffer(req)
		res = lmResult{ok: err == nil}
		if err == nil {
			res.zone, res.updates = o.NodeMask(), o.Updates()
			for i := range x.offers {
				if x.offers[i] == nil {
					x.offers[i] = &lmOffer{shape: sh, offer: o, gen: x.gen}
					break
				}
			}
		} else {
			res.errStr = err.Error()
		}
	case "C":
		slot := int(f[1][0] - '0')
		of := x.offers[slot]
		x.offers[slot] = nil
		z, u, err := of.offer.Commit()
		res = lmResult{ok: err == nil, zone: z, updates: u}
		if err == nil {
			x.live[of.shape.id] = of.shape
			x.bump(ev)
		} else {
			res.errStr = err.Error()
		}
	case "R":
		var idx int
		fmt.Sscanf(f[2], "%d", &idx)
		ra := x.s.reallocs[idx]
		z, u, err := x.a.Realloc(f[1], ra.nodes, ra.types)
		res = lmResult{ok: err == nil, zone: z, updates: u}
		if err != nil {
			res.errStr = err.Error()
		} else if ra.types != 0 {
			x.extra[f[1]] |= ra.types
		} else {
			for i, n := range x.s.nodes {
				if ra.nodes&(1<<uint(i)) != 0 {
					x.extra[f[1]] |= n.typ.Mask()
				}
			}
		}
	case "X":
		err := x.a.Release(f[1])
		res = lmResult{ok: err == nil}
		if err == nil {
			delete(x.live, f[1])
			delete(x.extra, f[1])
			x.bump(ev)
		} else {
			res.errStr = err.Error()
		}
	case "Z":
		x.a.Reset()
		x.live = map[string]*lmShape{}
		x.extra = map[string]TypeMask{}
		x.bump(ev)
		res = lmResult{ok: true}
	}
	return res
}

// runPrecise executes the trace and decides for every Realloc whether it changed state (needed for the offer generation model).
func (x *lmExec) runPrecise(trace []string) (bool, string, string) {
	for i, ev := range trace {
		last := i == len(trace)-1
		var pre *lmOmega
		if last || ev[0] == 'R' {
			pre = x.s.observe(x.a)
		}
		if last {
			x.before = pre
			x.lastEv = ev
		}
		var res lmResult
		p, msg, where := mc.Guard(func() { res = x.apply(ev) })
		if p {
			return true, msg, where
		}
		var post *lmOmega
		if last || ev[0] == 'R' {
			post = x.s.observe(x.a)
		}
		if ev[0] == 'R' && res.ok && post.String() != pre.String() {
			x.bump(ev)
		}
		if last {
			x.lastRes, x.after = res, post
		}
	}
	if len(trace) == 0 {
		x.after = x.s.observe(x.a)
	}
	return false, "", ""
}

func (x *lmExec) stampsIncreasing() bool {
	for i := 1; i < len(x.stamps); i++ {
		if x.stamps[i] <= x.stamps[i-1] {
			return false
		}
	}
	return true
}

func (x *lmExec) enabled() []string {
	var evs []string
	free := -1
	for i, o := range x.offers {
		if o == nil && free < 0 {
			free = i
		}
	}
	for _, sh := range x.s.shapes {
		evs = append(evs, "A:"+sh.id)
	}
	if free >= 0 {
		for _, sh := range x.s.shapes {
			evs = append(evs, "O:"+sh.id)
		}
	}
	for i, o := range x.offers {
		if o != nil {
			evs = append(evs, fmt.Sprintf("C:%d", i))
		}
	}
	ids := mc.SortedKeys(x.live)
	for _, id := range ids {
		for i := range x.s.reallocs {
			evs = append(evs, fmt.Sprintf("R:%s:%d", id, i))
		}
	}
	for _, id := range ids {
		evs = append(evs, "X:"+id)
	}
	if len(ids) < len(x.s.shapes) {
		// releasing / re-allocating something that is not allocated must fail cleanly
		for _, sh := range x.s.shapes {
			if x.live[sh.id] == nil {
				evs = append(evs, "X:"+sh.id, "R:"+sh.id+":0")
				break
			}
		}
	}
	if len(ids) > 0 {
		evs = append(evs, "Z")
	}
	return evs
}

func (x *lmExec) key() string {
	var b strings.Builder
	b.WriteString(x.after.String())
	for i, o := range x.offers {
		if o == nil {
			fmt.Fprintf(&b, " o%d=-", i)
		} else {
			u := []string{}
			up := o.offer.Updates()
			for _, id := range mc.SortedKeys(up) {
				u = append(u, id+"="+up[id].String())
			}
			fmt.Fprintf(&b, " o%d=%s/%v/%s/%s/%s", i, o.shape.id, o.gen == x.gen, o.offer.NodeMask(), strings.Join(u, ","), strings.Join(o.since, ">"))
		}
	}
	return b.String()
}

// twin returns the trace with every offer that was never committed within the trace removed,
// and, if convertLast, the last event (a commit of a fresh offer) replaced by a direct allocation.
func lmTwin(trace []string, convertLast bool) ([]string, bool) {
	type slotInfo struct{ pos int }
	var slots [2]*slotInfo
	drop := map[int]bool{}
	replace := map[int]string{}
	failed := false
	for i, ev := range trace {
		switch ev[0] {
		case 'O':
			placed := false
			for s := range slots {
				if slots[s] == nil {
					slots[s] = &slotInfo{pos: i}
					placed = true
					break
				}
			}
			if !placed {
				failed = true
			}
		case 'C':
			s := int(ev[2] - '0')
			if slots[s] == nil {
				failed = true
				break
			}
			if convertLast && i == len(trace)-1 {
				drop[slots[s].pos] = true
				replace[i] = "A:" + strings.SplitN(trace[slots[s].pos], ":", 2)[1]
			}
			slots[s] = nil
		}
	}
	if failed {
		return nil, false
	}
	for s := range slots {
		if slots[s] != nil {
			drop[slots[s].pos] = true
		}
	}
	// Removing an offer changes slot numbering of later offers: renumber commits.
	var out []string
	var live [2]int // original slot -> twin slot, tracked by replaying slot allocation on both sides
	var oslots, tslots [2]bool
	for i := range live {
		live[i] = -1
	}
	for i, ev := range trace {
		switch ev[0] {
		case 'O':
			os_ := -1
			for s := range oslots {
				if !oslots[s] {
					os_ = s
					break
				}
			}
			oslots[os_] = true
			if drop[i] {
				live[os_] = -2 // dropped
				continue
			}
			ts := -1
			for s := range tslots {
				if !tslots[s] {
					ts = s
					break
				}
			}
			tslots[ts] = true
			live[os_] = ts
			out = append(out, ev)
		case 'C':
			s := int(ev[2] - '0')
			oslots[s] = false
			if r, ok := replace[i]; ok {
				out = append(out, r)
				live[s] = -1
				continue
			}
			ts := live[s]
			if ts < 0 {
				return nil, false
			}
			tslots[ts] = false
			live[s] = -1
			out = append(out, fmt.Sprintf("C:%d", ts))
		default:
			out = append(out, ev)
		}
	}
	return out, true
}

func sameUpdates(a, b map[string]NodeMask) bool {
	if len(a) != len(b) {
		return false
	}
	for k, v := range a {
		if b[k] != v {
			return false
		}
	}
	return true
}

// lmRun executes a trace and judges its last event for the given property ("C06" or "C07").
func lmRun(prop string, s *lmScenario, trace []string) mc.Step {
	st := mc.Step{}
	viol := func(oracle, sig, detail string) {
		st.Violations = append(st.Violations, mc.Violation{Property: prop, Oracle: oracle, Signature: sig,
			Scenario: s.name, Trace: append([]string{}, trace...), Detail: detail})
	}
	var x *lmExec
	for try := 0; ; try++ {
		x = newExec(s)
		p, msg, where := x.runPrecise(trace)
		if p {
			viol("panic", "panic@"+where, msg)
			st.Key = "panic:" + strings.Join(trace, ",")
			st.Stop = true
			return st
		}
		if x.stampsIncreasing() || try > 5 {
			break
		}
		time.Sleep(time.Microsecond)
	}
	st.Key = x.key()
	st.Enabled = x.enabled()
	if len(trace) == 0 {
		return st
	}
	ev, res, pre, post := x.lastEv, x.lastRes, x.before, x.after
	st.Outcome = fmt.Sprintf("%c/%v/%d", ev[0], res.ok, len(res.updates))
	st.Nontrivial = len(post.zone) >= 2
	changed := pre.String() != post.String()

	if prop == "C06" {
		// (a) a failed operation changes nothing
		if !res.ok && changed {
			viol("failed-op-changed-state", "failed-op-changed-state:"+ev[:1],
				fmt.Sprintf("%s failed (%s) but state changed:\n before %s\n after  %s", ev, res.errStr, pre, post))
		}
		switch ev[0] {
		case 'O':
			// (b) requesting an offer never changes allocator state
			if changed {
				viol("offer-changed-state", "offer-changed-state", fmt.Sprintf("%s changed state:\n before %s\n after  %s", ev, pre, post))
			}
		case 'C':
			// which offer was committed? recover it from a shadow execution of the prefix
			px := newExec(s)
			px.runPrecise(trace[:len(trace)-1])
			slot := int(ev[2] - '0')
			of := px.offers[slot]
			fresh := of.gen == px.gen
			if !fresh && res.ok {
				viol("stale-offer-committed", "stale-offer-committed",
					fmt.Sprintf("offer for %s taken at generation %d committed successfully at generation %d (a later allocation, re-allocation, release or commit succeeded in between): %s",
						of.shape.id, of.gen, px.gen, res))
			}
			if fresh {
				if !res.ok {
					viol("fresh-offer-refused", "fresh-offer-refused", fmt.Sprintf("fresh offer for %s refused: %s", of.shape.id, res.errStr))
				} else if tw, ok := lmTwin(trace, true); ok {
					tx := newExec(s)
					tx.runPrecise(tw)
					if tx.lastRes.ok != res.ok || tx.lastRes.zone != res.zone || !sameUpdates(tx.lastRes.updates, res.updates) ||
						tx.after.String() != post.String() {
						viol("commit-differs-from-allocate", "commit-differs-from-allocate",
							fmt.Sprintf("commit of fresh offer gave %s, direct allocation (trace %v) gave %s\n state %s\n twin  %s", res, tw, tx.lastRes, post, tx.after))
					}
				}
			}
		case 'X':
			if res.ok {
				id := strings.SplitN(ev, ":", 2)[1]
				for k, z := range pre.zone {
					if k == id {
						continue
					}
					if post.zone[k] != z {
						viol("release-touched-others", "release-touched-others", fmt.Sprintf("%s moved %s from %s to %s", ev, k, z, post.zone[k]))
					}
				}
				if _, still := post.zone[id]; still {
					viol("release-did-not-release", "release-did-not-release", fmt.Sprintf("%s: still assigned", ev))
				}
				if len(post.reqs) != len(pre.reqs)-1 {
					viol("release-request-count", "release-request-count", fmt.Sprintf("%s: %d requests before, %d after", ev, len(pre.reqs), len(post.reqs)))
				}
			}
		}
		// (b') offers are invisible: the same trace without the never-committed offers ends in the same state
		// and gives the same result for the last operation.
		if ev[0] != 'O' && ev[0] != 'C' {
			if tw, ok := lmTwin(trace, false); ok && len(tw) != len(trace) {
				tx := newExec(s)
				tx.runPrecise(tw)
				if tx.lastRes.ok != res.ok || tx.lastRes.zone != res.zone || !sameUpdates(tx.lastRes.updates, res.updates) ||
					tx.after.String() != post.String() {
					viol("offer-has-side-effect", "offer-has-side-effect",
						fmt.Sprintf("%s gave %s; without the uncommitted offers (trace %v) it gives %s\n state %s\n twin  %s", ev, res, tw, tx.lastRes, post, tx.after))
				}
			}
		}
	}

	if prop == "C07" && res.ok && (ev[0] == 'A' || ev[0] == 'C' || ev[0] == 'R') {
		var reqID string
		var sh *lmShape
		switch ev[0] {
		case 'A':
			reqID = strings.Split(ev, ":")[1]
		case 'R':
			reqID = strings.Split(ev, ":")[1]
		case 'C':
			px := newExec(s)
			px.runPrecise(trace[:len(trace)-1])
			reqID = px.offers[int(ev[2]-'0')].shape.id
		}
		sh = s.shape(reqID)
		// (a) capacity of every node set
		sizes := map[string]int64{}
		for _, r := range s.shapes {
			sizes[r.id] = r.size
		}
		for set := NodeMask(1); set <= s.all(); set++ {
			var used int64
			isZone := false
			for id, z := range post.zone {
				if z&^set == 0 {
					used += sizes[id]
				}
				if z == set {
					isZone = true
				}
			}
			if capa := s.capacity(set); used > capa {
				// class: is some assigned zone itself over capacity, or only a union of overlapping zones?
				zoneOver := false
				for _, z := range post.zone {
					var u int64
					for id2, z2 := range post.zone {
						if z2&^z == 0 {
							u += sizes[id2]
						}
					}
					if u > s.capacity(z) {
						zoneOver = true
					}
				}
				class := "union-of-overlapping-zones"
				if zoneOver || isZone {
					class = "assigned-zone"
				}
				viol("capacity-exceeded", "capacity-exceeded:"+class,
					fmt.Sprintf("after %s nodes %s hold %d > capacity %d; assignments %v", ev, set, used, capa, post.zone))
				break
			}
		}
		// (b) strict types
		for id, z := range post.zone {
			r := s.shape(id)
			if r.strict && r.types != 0 && z&^s.typeNodes(r.types|x.extra[id]) != 0 {
				viol("strict-type-violated", "strict-type-violated", fmt.Sprintf("%s (strict %s) assigned %s", id, r.types, z))
			}
		}
		// (c) normal memory in every newly assigned zone
		if ev[0] != 'R' {
			if z := post.zone[reqID]; z&s.normalNodes() == 0 {
				viol("no-normal-memory", "no-normal-memory", fmt.Sprintf("%s newly assigned %s which has no normal memory", reqID, z))
			}
		}
		// (d) monotone moves, immovable reservations, realloc never shrinks
		moved := map[string]NodeMask{}
		for id, z := range pre.zone {
			nz, ok := post.zone[id]
			if !ok {
				viol("allocation-vanished", "allocation-vanished", fmt.Sprintf("%s lost its assignment during %s", id, ev))
				continue
			}
			if nz != z {
				if id != reqID {
					moved[id] = nz
				}
				if nz&z != z {
					viol("move-not-superset", "move-not-superset", fmt.Sprintf("%s moved from %s to %s during %s", id, z, nz, ev))
				}
				if s.shape(id).prio == Reservation && id != reqID {
					viol("reservation-moved", "reservation-moved", fmt.Sprintf("reservation %s moved from %s to %s during %s", id, z, nz, ev))
				}
			}
		}
		if ev[0] == 'R' {
			if res.zone != post.zone[reqID] {
				viol("returned-zone-mismatch", "returned-zone-mismatch", fmt.Sprintf("%s returned %s but %s is assigned %s", ev, res.zone, reqID, post.zone[reqID]))
			}
		} else if res.zone != post.zone[reqID] {
			viol("returned-zone-mismatch", "returned-zone-mismatch", fmt.Sprintf("%s returned %s but %s is assigned %s", ev, res.zone, reqID, post.zone[reqID]))
		}
		// (e) exact update set
		if !sameUpdates(moved, res.updates) {
			viol("updates-not-exact", "updates-not-exact", fmt.Sprintf("%s reported updates %v but assignments changed for %v", ev, res.updates, moved))
		}
		_ = sh
	}
	return st
}

// ---------------------------------------------------------------------------
// scenario families

func lmFlat(n int, d int) [][]int {
	m := make([][]int, n)
	for i := range m {
		m[i] = make([]int, n)
		for j := range m[i] {
			if i == j {
				m[i][j] = 10
			} else {
				m[i][j] = d
			}
		}
	}
	return m
}

func lmScenarios(prop string, thorough bool) []*lmScenario {
	D, P, H := TypeDRAM, TypePMEM, TypeHBM
	n := func(ids ...ID) NodeMask { return NewNodeMask(ids...) }
	var out []*lmScenario
	add := func(s *lmScenario) { out = append(out, s) }

	stdRealloc := []lmRealloc{{n(1), 0}, {0, TypeMaskPMEM | TypeMaskDRAM}}

	// 1. two flat DRAM nodes
	add(&lmScenario{name: "flat2", nodes: []lmNode{{D, 4, true, "0-1"}, {D, 4, true, "2-3"}}, dist: lmFlat(2, 21),
		shapes: []lmShape{
			{"a", 3, n(0), 0, false, Burstable}, {"b", 3, n(0), 0, false, Guaranteed}, {"c", 2, n(1), 0, false, BestEffort},
			{"d", 5, n(1), 0, false, Burstable}, {"e", 1, n(0), 0, false, Reservation}, {"f", 9, n(0, 1), 0, false, Burstable},
			// requests that must be refused cleanly: affinity to a node that does not exist, a strict type the machine lacks
			{"g", 1, n(5), 0, false, Burstable}, {"h", 1, n(0), TypeMaskHBM, true, Guaranteed},
		}, reallocs: append(stdRealloc, lmRealloc{n(5), 0}, lmRealloc{0, TypeMaskHBM})})
	// 2. chain of three DRAM nodes (distances 10/11/21)
	chain := [][]int{{10, 11, 21}, {11, 10, 11}, {21, 11, 10}}
	add(&lmScenario{name: "chain3", nodes: []lmNode{{D, 4, true, "0"}, {D, 4, true, "1"}, {D, 4, true, "2"}}, dist: chain,
		shapes: []lmShape{
			{"a", 7, n(0), 0, false, Burstable}, {"b", 7, n(2), 0, false, Burstable}, {"c", 3, n(1), 0, false, Guaranteed},
			{"d", 2, n(0), 0, false, BestEffort}, {"e", 2, n(1), 0, false, Reservation}, {"f", 5, n(0, 1), 0, false, Preserved},
		}, reallocs: []lmRealloc{{n(1), 0}, {n(2), 0}}})
	// 3. 2x2 hierarchical DRAM
	hier := [][]int{{10, 12, 21, 21}, {12, 10, 21, 21}, {21, 21, 10, 12}, {21, 21, 12, 10}}
	add(&lmScenario{name: "hier4", nodes: []lmNode{{D, 4, true, "0"}, {D, 4, true, "1"}, {D, 4, true, "2"}, {D, 4, true, "3"}}, dist: hier,
		shapes: []lmShape{
			{"a", 3, n(0), 0, false, Burstable}, {"b", 3, n(0), 0, false, Burstable}, {"c", 6, n(2), 0, false, Guaranteed},
			{"d", 4, n(1), 0, false, BestEffort}, {"e", 3, n(2, 3), 0, false, Reservation}, {"f", 10, n(0), 0, false, Burstable},
		}, reallocs: []lmRealloc{{n(1), 0}, {n(2), 0}}})
	// 4. DRAM + far CPU-less PMEM
	dp := [][]int{{10, 21, 17, 28}, {21, 10, 28, 17}, {17, 28, 10, 28}, {28, 17, 28, 10}}
	add(&lmScenario{name: "dram+pmem", nodes: []lmNode{{D, 4, true, "0-1"}, {D, 4, true, "2-3"}, {P, 8, false, ""}, {P, 8, false, ""}}, dist: dp,
		shapes: []lmShape{
			{"a", 3, n(0), 0, false, Burstable}, {"b", 3, n(0), 0, false, Guaranteed}, {"c", 6, n(0), TypeMaskPMEM, false, Burstable},
			{"d", 6, n(1), TypeMaskPMEM, true, Burstable}, {"e", 2, n(0), TypeMaskDRAM, true, Reservation}, {"f", 5, n(1), TypeMaskDRAM | TypeMaskPMEM, false, BestEffort},
		}, reallocs: []lmRealloc{{0, TypeMaskPMEM}, {n(1), TypeMaskDRAM}}})
	// 5. DRAM + HBM, asymmetric capacities, one memory-less node
	dh := [][]int{{10, 21, 13, 30}, {21, 10, 25, 30}, {13, 25, 10, 30}, {30, 30, 30, 10}}
	add(&lmScenario{name: "dram+hbm", nodes: []lmNode{{D, 2, true, "0-1"}, {D, 8, true, "2-3"}, {H, 2, true, ""}, {D, 0, true, "4-5"}}, dist: dh,
		shapes: []lmShape{
			{"a", 2, n(0), 0, false, Burstable}, {"b", 2, n(0), TypeMaskHBM, false, Guaranteed}, {"c", 1, n(0), TypeMaskHBM, true, Burstable},
			{"d", 7, n(1), 0, false, BestEffort}, {"e", 1, n(3), 0, false, Burstable}, {"f", 3, n(0), TypeMaskDRAM, true, Preserved},
		}, reallocs: []lmRealloc{{0, TypeMaskHBM}, {n(1), 0}}})
	// 6. movable-only memory
	mv := [][]int{{10, 12, 17}, {12, 10, 17}, {17, 17, 10}}
	add(&lmScenario{name: "movable", nodes: []lmNode{{D, 4, true, "0-1"}, {D, 4, false, "2-3"}, {P, 8, false, ""}}, dist: mv,
		shapes: []lmShape{
			{"a", 3, n(1), 0, false, Burstable}, {"b", 3, n(1), 0, false, Guaranteed}, {"c", 4, n(2), TypeMaskPMEM, true, Burstable},
			{"d", 6, n(2), TypeMaskPMEM, false, BestEffort}, {"e", 2, n(0), 0, false, Reservation}, {"f", 0, n(1), 0, false, BestEffort},
		}, reallocs: []lmRealloc{{n(0), 0}, {0, TypeMaskPMEM}}})
	// 6b. a CPU-only (memory-less) node whose closest memory is movable-only: requests affine to it alone
	ml := [][]int{{10, 12, 21, 21}, {12, 10, 21, 21}, {21, 21, 10, 11}, {21, 21, 11, 10}}
	add(&lmScenario{name: "memoryless+movable", nodes: []lmNode{{D, 4, true, "0-1"}, {D, 4, true, "2-3"}, {D, 0, true, "4-5"}, {D, 4, false, ""}}, dist: ml,
		shapes: []lmShape{
			{"a", 0, n(2), 0, false, BestEffort}, {"b", 4, n(2), 0, false, Burstable}, {"c", 3, n(0), 0, false, Guaranteed},
			{"d", 2, n(2, 3), 0, false, Burstable}, {"e", 1, n(2), 0, false, Reservation}, {"f", 3, n(1), 0, false, Burstable},
		}, reallocs: []lmRealloc{{n(3), 0}, {n(0), 0}}})
	// 7/8. custom expansion orders
	add(&lmScenario{name: "hier4-custom-all", custom: "all", nodes: []lmNode{{D, 4, true, "0"}, {D, 4, true, "1"}, {D, 4, true, "2"}, {D, 4, true, "3"}}, dist: hier,
		shapes: []lmShape{
			{"a", 3, n(0), 0, false, Burstable}, {"b", 3, n(0), 0, false, Burstable}, {"c", 6, n(2), 0, false, Guaranteed},
			{"d", 4, n(1), 0, false, BestEffort}, {"e", 3, n(2, 3), 0, false, Reservation},
		}, reallocs: []lmRealloc{{n(1), 0}}})
	add(&lmScenario{name: "chain3-custom-far", custom: "far", nodes: []lmNode{{D, 4, true, "0"}, {D, 4, true, "1"}, {D, 4, true, "2"}}, dist: chain,
		shapes: []lmShape{
			{"a", 3, n(0), 0, false, Burstable}, {"b", 3, n(0), 0, false, Burstable}, {"c", 3, n(1), 0, false, Guaranteed},
			{"d", 5, n(2), 0, false, BestEffort}, {"e", 2, n(1), 0, false, Reservation},
		}, reallocs: []lmRealloc{{n(1), 0}}})

	// 9. 4 DRAM + 4 PMEM (the layout of the package's own TestRealloc), searched from a state with partially overlapping,
	// non-nested zones {0,1}, {1,2}, {2,3} that are nearly full: widening anything now overcommits a brand-new zone and the
	// overcommit handler has to move requests (possibly the re-allocated one itself) further out, into PMEM
	d8 := [][]int{
		{10, 21, 11, 21, 17, 28, 28, 28}, {21, 10, 21, 11, 28, 28, 17, 28}, {11, 21, 10, 21, 28, 17, 28, 28}, {21, 11, 21, 10, 28, 28, 28, 17},
		{17, 28, 28, 28, 10, 28, 28, 28}, {28, 28, 17, 28, 28, 10, 28, 28}, {28, 17, 28, 28, 28, 28, 10, 28}, {28, 28, 28, 17, 28, 28, 28, 10}}
	add(&lmScenario{name: "overlap8", dist: d8,
		nodes: []lmNode{{D, 4, true, "0-1"}, {D, 4, true, "2-3"}, {D, 4, true, "4-5"}, {D, 4, true, "6-7"}, {P, 4, true, ""}, {P, 4, true, ""}, {P, 4, true, ""}, {P, 4, true, ""}},
		shapes: []lmShape{
			{"a", 7, n(0, 1), TypeMaskDRAM, false, Burstable}, {"b", 7, n(1, 2), TypeMaskDRAM, false, Burstable}, {"e", 2, n(2, 3), TypeMaskDRAM, false, Burstable},
			{"c", 1, n(0), TypeMaskDRAM, false, Burstable}, {"d", 2, n(3), 0, false, Guaranteed}, {"f", 0, n(0), 0, false, BestEffort},
		}, reallocs: []lmRealloc{{n(0, 1), TypeMaskDRAM}, {n(1), 0}, {0, TypeMaskPMEM}},
		prefix: []string{"A:a", "A:b", "A:e"}, less: 1})

	// capacity / size variants to drive overcommit harder
	base := len(out)
	for i := 0; i < base; i++ {
		s := out[i]
		if s.custom != "" {
			continue
		}
		v := *s
		v.name = s.name + "/tight"
		v.shapes = append([]lmShape{}, s.shapes...)
		for j := range v.shapes {
			if v.shapes[j].size > 0 && v.shapes[j].prio != Reservation {
				v.shapes[j].size++
			}
		}
		add(&v)
		if thorough {
			w := *s
			w.name = s.name + "/prio-rot"
			w.shapes = append([]lmShape{}, s.shapes...)
			pr := []Priority{BestEffort, Burstable, Guaranteed, Preserved}
			for j := range w.shapes {
				if w.shapes[j].prio != Reservation {
					w.shapes[j].prio = pr[(j+1)%len(pr)]
				}
			}
			add(&w)
		}
	}
	return out
}

func lmTest(t *testing.T, prop string) {
	logger.SetLevel(logger.LevelPanic)
	w := mc.NewWorker(t, prop)
	defer w.Finish()
	scs := lmScenarios(prop, w.Thorough())
	byName := map[string]*lmScenario{}
	for _, s := range scs {
		byName[s.name] = s
	}
	w.Replayer = func(sc string, trace []string) []mc.Violation {
		return lmRun(prop, byName[sc], trace).Violations
	}
	if w.ReplayV != nil {
		for _, v := range w.Replayer(w.ReplayV.Scenario, w.ReplayV.Trace) {
			t.Logf("REPLAY %s %s: %s", v.Property, v.Signature, v.Detail)
			w.Res.Violations = append(w.Res.Violations, v)
		}
		return
	}
	depth := 4
	if w.Thorough() {
		depth = 5
	}
	if d := os.Getenv("VERIF_DEPTH"); d != "" {
		fmt.Sscanf(d, "%d", &depth)
	}
	for i, s := range scs {
		if !w.Mine(i) {
			continue
		}
		ex := &mc.Explorer{W: w, Scenario: s.name, Depth: depth - s.less, Run: func(tr []string) mc.Step { return lmRun(prop, s, append(append([]string{}, s.prefix...), tr...)) }}
		st, tr, d := ex.Explore()
		w.Note("%s: states=%d transitions=%d depth=%d", s.name, st, tr, d)
	}
}

func TestVerifC06(t *testing.T) { lmTest(t, "C06") }
func TestVerifC07(t *testing.T) { lmTest(t, "C07") }
