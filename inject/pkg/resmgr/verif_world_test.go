//go:build verif

package resmgr

// World model and fixture for resource-manager level exploration: a real
// resmgr (cache, policy, controllers) on a generated sysfs tree, driven by a
// fake container runtime that tracks what it "has been told".

import (
	"context"
	"encoding/json"
	"fmt"
	"os"
	"path/filepath"
	"sort"
	"strings"

	"github.com/containerd/nri/pkg/api"

	balloonspolicy "github.com/containers/nri-plugins/cmd/plugins/balloons/policy"
	tapolicy "github.com/containers/nri-plugins/cmd/plugins/topology-aware/policy"
	"github.com/containers/nri-plugins/pkg/agent"
	cfgapi "github.com/containers/nri-plugins/pkg/apis/config/v1alpha1"
	"github.com/containers/nri-plugins/pkg/kubernetes"
	logger "github.com/containers/nri-plugins/pkg/log"
	cachepkg "github.com/containers/nri-plugins/pkg/resmgr/cache"
	cpuctl "github.com/containers/nri-plugins/pkg/resmgr/control/cpu"
	resmgrevents "github.com/containers/nri-plugins/pkg/resmgr/events"
	libmem "github.com/containers/nri-plugins/pkg/resmgr/lib/memory"
	policyapi "github.com/containers/nri-plugins/pkg/resmgr/policy"
	"github.com/containers/nri-plugins/pkg/verif/mc"
	"github.com/containers/nri-plugins/pkg/verif/sched"
	"github.com/containers/nri-plugins/pkg/verif/sysgen"
	"github.com/containers/nri-plugins/pkg/verif/vos"
)

const (
	polTA       = "topology-aware"
	polBalloons = "balloons"
)

// ---------------------------------------------------------------------------
// scenario description

type tmpl struct {
	name     string
	cpuReq   int64  // mCPU
	cpuLim   int64  // mCPU, 0 = none
	memLim   int64  // bytes, 0 = none
	initCpus string // cpuset.cpus the runtime creates the container with
	initMems string
	oomAdj   int64    // Burstable only: oom_score_adj the kubelet derived from the memory request (0 = 999)
	shape    string   // which optional sub-messages the runtime omits: "", no-linux, no-resources, no-cpu, no-memory, no-oomadj, no-period, no-quota, no-shares, no-limit, pod-no-linux
	dev      [2]int64 // major, minor of a writable character device the container is given (0,0 = none)
}

type ctrSpec struct {
	name string // container name within the pod
	t    *tmpl
}

type podSpec struct {
	name        string
	ns          string
	qos         string // Guaranteed, Burstable, BestEffort
	annotations map[string]string
	labels      map[string]string
	ctrs        []ctrSpec
}

type cfgSpec struct {
	label  string
	build  func() cfgapi.ResmgrConfig
	reject bool // the policy is expected to refuse it (used by C13 bookkeeping only, never as an oracle input)
}

type updSpec struct {
	label  string
	cpuReq int64
	cpuLim int64
	memLim int64
	same   bool // the runtime repeats the resources the container currently has (UpdateContainer's short-circuit path)
	absent bool // the update request carries no resources message at all
}

type scenario struct {
	name    string
	policy  string
	machine *sysgen.Spec
	cfgs    []cfgSpec
	pods    []podSpec
	updates []updSpec
	prefix  []string // setup events, not counted in the depth
	menu    menu
	depth   int
	maxInc  int // incarnations per container slot
}

type menu struct {
	start, update, stop, remove, sync, restart bool
	podStop, podRemove, podRun                 bool
	reconf                                     []int // configuration indices offered as reconf:<k>
	illFormed                                  bool  // also offer out-of-order lifecycle events
	restartTruth                               bool  // offer restarts with a changed runtime truth (containers/pods gone, stopped, new)
	restartCuts                                bool  // offer restarts from a cache saved in the middle of the last request
	recreateLive                               bool  // offer creating a same-named container while the old one is still alive in the runtime
	ghost                                      bool  // also offer events that name a pod/container the plugin has never seen
	coldDone                                   bool  // offer the end of a running container's cold-start period (policy event cold-start-done)
	resyncTruth                                bool  // offer Synchronize on the same instance after containers/pods vanished from the runtime
}

// ---------------------------------------------------------------------------
// world (fake runtime) state

const (
	lifeNone = iota
	lifeCreated
	lifeRunning
	lifeStopped
	lifeRemoved
	lifeFailed // CreateContainer was refused by the plugin
)

var lifeNames = []string{"none", "created", "running", "stopped", "removed", "failed"}

type res struct {
	Cpus     string
	Mems     string
	Shares   uint64
	Quota    int64
	Period   uint64
	MemLimit int64
	Swap     int64
}

type wctr struct {
	slot     string // c<i>
	spec     *ctrSpec
	pod      *wpod
	inc      int
	life     int
	told     res
	init     res
	req      updSpec // current resource request of the container (changes with update events)
	rank     int     // creation order
	toldN    int     // number of adjustments/updates applied
	cold     bool    // the cold-start period of this incarnation has been ended (colddone delivered)
	cfgAtAdm int     // index of the configuration in force when this incarnation was admitted
}

// coldTimerArmed: the policy has armed a cold-start timer for the container. Only then can a cold-start-done event
// exist at all - the timer is its only source - so only then does the driver offer it.
func (x *exec) coldTimerArmed(id string) bool {
	if x.scn.policy != polTA {
		return false
	}
	if s := tapolicy.VerifSnapshot(x.in.backend); s != nil {
		for _, g := range s.Grants {
			if g.ID == id {
				return g.ColdTimer
			}
		}
	}
	return false
}

func (c *wctr) id() string {
	if c.inc == 0 {
		return c.slot
	}
	return fmt.Sprintf("%s.%d", c.slot, c.inc)
}

func (c *wctr) live() bool { return c.life == lifeCreated || c.life == lifeRunning }

type wpod struct {
	slot string // p<i>
	spec *podSpec
	life int // lifeNone, lifeRunning, lifeStopped, lifeRemoved
	ctrs []*wctr
}

type world struct {
	scn      *scenario
	pods     []*wpod
	ctrs     []*wctr          // current incarnation per slot
	old      []*wctr          // previous incarnations (stopped or removed)
	byID     map[string]*wctr // every incarnation ever created
	rank     int
	cfgIdx   int
	ghostPod *wpod // a pod the plugin is never told about through RunPodSandbox
	ghostCtr *wctr
}

var ghostTmpl = &tmpl{name: "ghost", cpuReq: 1000, cpuLim: 1000, memLim: 100 << 20}

func newWorld(s *scenario) *world {
	w := &world{scn: s, byID: map[string]*wctr{}}
	w.ghostPod = &wpod{slot: "px", spec: &podSpec{name: "ghost", ns: "default", qos: "Guaranteed", ctrs: []ctrSpec{{name: "c", t: ghostTmpl}}}}
	w.ghostCtr = &wctr{slot: "cx", spec: &w.ghostPod.spec.ctrs[0], pod: w.ghostPod}
	w.ghostPod.ctrs = []*wctr{w.ghostCtr}
	n := 0
	for i := range s.pods {
		p := &wpod{slot: fmt.Sprintf("p%d", i), spec: &s.pods[i]}
		for j := range s.pods[i].ctrs {
			c := &wctr{slot: fmt.Sprintf("c%d", n), spec: &s.pods[i].ctrs[j], pod: p}
			n++
			p.ctrs = append(p.ctrs, c)
			w.ctrs = append(w.ctrs, c)
		}
		w.pods = append(w.pods, p)
	}
	return w
}

func (w *world) ctr(slot string) *wctr {
	for _, c := range w.ctrs {
		if c.slot == slot {
			return c
		}
	}
	if slot == "cx" {
		return w.ghostCtr
	}
	return nil
}

func (w *world) pod(slot string) *wpod {
	for _, p := range w.pods {
		if p.slot == slot {
			return p
		}
	}
	if slot == "px" {
		return w.ghostPod
	}
	return nil
}

func (p *wpod) cgroupParent() string {
	switch p.spec.qos {
	case "Burstable":
		return "/kubepods/burstable/pod" + p.slot
	case "BestEffort":
		return "/kubepods/besteffort/pod" + p.slot
	}
	return "/kubepods/pod" + p.slot
}

func (p *wpod) nri() *api.PodSandbox {
	ann := map[string]string{}
	for k, v := range p.spec.annotations {
		ann[k] = v
	}
	lbl := map[string]string{}
	for k, v := range p.spec.labels {
		lbl[k] = v
	}
	pod := &api.PodSandbox{
		Id: p.slot, Name: p.spec.name, Uid: "uid-" + p.slot, Namespace: p.spec.ns,
		Annotations: ann, Labels: lbl,
		Linux: &api.LinuxPodSandbox{CgroupParent: p.cgroupParent()},
	}
	if len(p.spec.ctrs) > 0 && p.spec.ctrs[0].t.shape == "pod-no-linux" {
		pod.Linux = nil
	}
	return pod
}

func encodeRes(u updSpec, cur res) *api.LinuxResources {
	r := &api.LinuxResources{Cpu: &api.LinuxCPU{Cpus: cur.Cpus, Mems: cur.Mems}, Memory: &api.LinuxMemory{}}
	r.Cpu.Shares = api.UInt64(kubernetes.MilliCPUToShares(u.cpuReq))
	if u.cpuLim > 0 {
		q, p := kubernetes.MilliCPUToQuota(u.cpuLim)
		r.Cpu.Quota = api.Int64(q)
		r.Cpu.Period = api.UInt64(uint64(p))
	}
	if u.memLim > 0 {
		r.Memory.Limit = api.Int64(u.memLim)
	}
	return r
}

func resFromNRI(r *api.LinuxResources) res {
	return res{
		Cpus: r.GetCpu().GetCpus(), Mems: r.GetCpu().GetMems(),
		Shares: r.GetCpu().GetShares().GetValue(), Quota: r.GetCpu().GetQuota().GetValue(), Period: r.GetCpu().GetPeriod().GetValue(),
		MemLimit: r.GetMemory().GetLimit().GetValue(), Swap: r.GetMemory().GetSwap().GetValue(),
	}
}

func (r res) toNRI() *api.LinuxResources {
	out := &api.LinuxResources{Cpu: &api.LinuxCPU{Cpus: r.Cpus, Mems: r.Mems}, Memory: &api.LinuxMemory{}}
	if r.Shares != 0 {
		out.Cpu.Shares = api.UInt64(r.Shares)
	}
	if r.Quota != 0 {
		out.Cpu.Quota = api.Int64(r.Quota)
	}
	if r.Period != 0 {
		out.Cpu.Period = api.UInt64(r.Period)
	}
	if r.MemLimit != 0 {
		out.Memory.Limit = api.Int64(r.MemLimit)
	}
	if r.Swap != 0 {
		out.Memory.Swap = api.Int64(r.Swap)
	}
	return out
}

// merge applies an adjustment/update with NRI semantics: a set wrapper or a non-empty string overrides.
func (r *res) merge(u *api.LinuxResources) {
	if u == nil {
		return
	}
	if c := u.GetCpu(); c != nil {
		if c.Cpus != "" {
			r.Cpus = c.Cpus
		}
		if c.Mems != "" {
			r.Mems = c.Mems
		}
		if c.Shares != nil {
			r.Shares = c.Shares.GetValue()
		}
		if c.Quota != nil {
			r.Quota = c.Quota.GetValue()
		}
		if c.Period != nil {
			r.Period = c.Period.GetValue()
		}
	}
	if m := u.GetMemory(); m != nil {
		if m.Limit != nil {
			r.MemLimit = m.Limit.GetValue()
		}
		if m.Swap != nil {
			r.Swap = m.Swap.GetValue()
		}
	}
}

func (c *wctr) oomAdj() int64 {
	switch c.pod.spec.qos {
	case "Guaranteed":
		return -997
	case "BestEffort":
		return 1000
	}
	if c.spec.t.oomAdj != 0 {
		return c.spec.t.oomAdj
	}
	return 999 // a small memory request relative to the node capacity
}

// nri builds the runtime's message for this container (fresh object: the cache keeps and mutates it).
func (c *wctr) nri(state api.ContainerState, r res) *api.Container {
	m := c.nriFull(state, r)
	switch c.spec.t.shape {
	case "no-linux":
		m.Linux = nil
	case "no-resources":
		m.Linux.Resources = nil
	case "no-cpu":
		m.Linux.Resources.Cpu = nil
	case "no-memory":
		m.Linux.Resources.Memory = nil
	case "no-oomadj":
		m.Linux.OomScoreAdj = nil
	case "no-period":
		if m.Linux.Resources.GetCpu() != nil {
			m.Linux.Resources.Cpu.Period = nil
		}
	case "no-quota":
		if m.Linux.Resources.GetCpu() != nil {
			m.Linux.Resources.Cpu.Quota = nil
		}
	case "no-shares":
		if m.Linux.Resources.GetCpu() != nil {
			m.Linux.Resources.Cpu.Shares = nil
		}
	case "no-limit":
		if m.Linux.Resources.GetMemory() != nil {
			m.Linux.Resources.Memory.Limit = nil
		}
	}
	return m
}

func (c *wctr) nriFull(state api.ContainerState, r res) *api.Container {
	m := &api.Container{
		Id: c.id(), PodSandboxId: c.pod.slot, Name: c.spec.name, State: state,
		Labels: map[string]string{}, Annotations: map[string]string{},
		Linux: &api.LinuxContainer{
			Resources:   r.toNRI(),
			OomScoreAdj: &api.OptionalInt{Value: c.oomAdj()},
			CgroupsPath: c.pod.cgroupParent() + "/" + c.id(),
		},
	}
	if d := c.spec.t.dev; d[0] != 0 {
		m.Linux.Devices = []*api.LinuxDevice{{Path: fmt.Sprintf("/dev/vdev%d", d[1]), Type: "c", Major: d[0], Minor: d[1]}}
		if m.Linux.Resources != nil {
			m.Linux.Resources.Devices = []*api.LinuxDeviceCgroup{{Allow: true, Type: "c", Major: api.Int64(d[0]), Minor: api.Int64(d[1]), Access: "rwm"}}
		}
	}
	return m
}

func (c *wctr) state() api.ContainerState {
	switch c.life {
	case lifeCreated:
		return api.ContainerState_CONTAINER_CREATED
	case lifeRunning:
		return api.ContainerState_CONTAINER_RUNNING
	case lifeStopped:
		return api.ContainerState_CONTAINER_STOPPED
	}
	return api.ContainerState_CONTAINER_UNKNOWN
}

// ---------------------------------------------------------------------------
// the instance under test

type fakeStub struct {
	onUpdate func([]*api.ContainerUpdate)
	pushed   int
}

func (s *fakeStub) Run(context.Context) error   { return nil }
func (s *fakeStub) Start(context.Context) error { return nil }
func (s *fakeStub) Stop()                       {}
func (s *fakeStub) Wait()                       {}
func (s *fakeStub) UpdateContainers(u []*api.ContainerUpdate) ([]*api.ContainerUpdate, error) {
	s.pushed++
	if s.onUpdate != nil {
		s.onUpdate(u)
	}
	return nil, nil
}

type inst struct {
	m       *resmgr
	backend policyapi.Backend
	stub    *fakeStub
	dead    bool // a handler panicked: the instance may hold its lock forever
}

const verifMemCapacity = int64(64) << 30

var verifSysRoots = map[string]string{}

// sysRoot writes (once per process) the scenario's machine and returns its host root.
func sysRoot(s *scenario) string {
	key := s.machine.Name
	if r, ok := verifSysRoots[key]; ok {
		return r
	}
	base := os.Getenv("VERIF_SCRATCH")
	if base == "" {
		base = os.TempDir()
	}
	root := filepath.Join(base, "sys-"+mc.Hash(fmt.Sprintf("%+v", *s.machine)))
	os.RemoveAll(root)
	s.machine.Model().Write(root)
	verifSysRoots[key] = root
	return root
}

func newInst(s *scenario, stateDir string, cfgIdx int) (*inst, error) {
	logger.SetLevel(logger.LevelPanic)
	kubernetes.SetMemoryCapacity(verifMemCapacity)
	opt.HostRoot = sysRoot(s)
	opt.StateDir = stateDir
	var cfgIf agent.ConfigInterface
	var backend policyapi.Backend
	if s.policy == polTA {
		cfgIf, backend = agent.TopologyAwareConfigInterface(), tapolicy.New()
	} else {
		cfgIf, backend = agent.BalloonsConfigInterface(), balloonspolicy.New()
	}
	agt, err := agent.New(cfgIf, agent.WithConfigFile("/nonexistent-verif"))
	if err != nil {
		return nil, err
	}
	rm, err := NewResourceManager(backend, agt)
	if err != nil {
		return nil, err
	}
	m := rm.(*resmgr)
	st := &fakeStub{}
	m.nri.stub = st
	cfg := s.cfgs[cfgIdx].build()
	m.cfg = cfg
	mCfg := cfg.CommonConfig()
	m.cache.ConfigureRDTControl(mCfg.Control.RDT.Enable)
	m.cache.ConfigureBlockIOControl(mCfg.Control.BlockIO.Enable)
	if err := m.policy.Start(cfg.PolicyConfig()); err != nil {
		return nil, fmt.Errorf("policy start: %w", err)
	}
	if err := m.startControllers(); err != nil {
		return nil, err
	}
	m.running = true
	return &inst{m: m, backend: backend, stub: st}, nil
}

// ---------------------------------------------------------------------------
// execution of events

type reply struct {
	ev      string
	err     error
	adjust  *api.ContainerAdjustment
	updates []*api.ContainerUpdate // returned by the handler
	pushed  []*api.ContainerUpdate // pushed through stub.UpdateContainers
	panic   string
	where   string
	target  *wctr
}

type exec struct {
	scn            *scenario
	w              *world
	in             *inst
	dir            string
	log            []string    // told-view problems found while applying replies (C05 material)
	addr           []addressed // every adjustment/update addressed to a container, for C12
	last           *reply
	restarts       int
	resyncs        int   // re-synchronisations of the same instance after the runtime's truth changed
	prevTarget     *wctr // target container of the previous event
	frozenSync     bool
	frozenPods     []string // world pod slots listed by a frozen Synchronize
	frozenCtrs     []string // container ids listed by a frozen Synchronize, with their state at freeze time
	frozenLife     map[string]int
	cutAfter       string          // kind of the request a restartcut interrupted
	addrMark       int             // index into addr where the last event started
	cfgBefore      int             // configuration index before the last event
	preSnap        *snap           // snapshot before the last event
	lastSaves      [][]byte        // cache file content after every save made by the last event
	lastKind       string          // kind of the last event
	extraPod       *wpod           // a pod+container the runtime created while the plugin was down
	rejected       []int           // indices (in the executed trace, prefix excluded) of configuration updates that were refused
	evIndex        int             // index of the event being executed, -1 during the prefix
	toldBefore     map[string]res  // told-view of every container before the last event
	replyChanged   []string        // C15: replies that changed between the handler's return and their consumption
	rejectedLabels map[string]bool // labels of the configuration updates refused so far
	failedKinds    map[string]bool // kinds of requests the plugin has refused so far
}

type addressed struct {
	id      string
	cpus    string
	mems    string
	hadMems string // cpuset.mems the runtime had for the container when the message arrived
	kind    string // adjust, update, push
	ev      string
}

func newExec(s *scenario, dir string) (*exec, error) {
	os.RemoveAll(dir)
	if err := os.MkdirAll(dir, 0o755); err != nil {
		return nil, err
	}
	in, err := newInst(s, dir, 0)
	if err != nil {
		return nil, err
	}
	x := &exec{scn: s, w: newWorld(s), in: in, dir: dir}
	x.hookStub()
	return x, nil
}

func (x *exec) hookStub() {
	x.in.stub.onUpdate = func(u []*api.ContainerUpdate) {
		if x.last != nil {
			x.last.pushed = append(x.last.pushed, u...)
		}
	}
}

func (x *exec) applyUpdates(ev string, kind string, ups []*api.ContainerUpdate, skipID string) {
	seen := map[string]bool{}
	for _, u := range ups {
		id := u.GetContainerId()
		if seen[id] {
			x.log = append(x.log, fmt.Sprintf("duplicate-update|%s|%s carries more than one update for container %s", id, ev, id))
		}
		seen[id] = true
		c := x.w.byID[id]
		r := u.GetLinux().GetResources()
		had := ""
		if c != nil {
			had = c.told.Mems
		}
		x.addr = append(x.addr, addressed{id: id, cpus: r.GetCpu().GetCpus(), mems: r.GetCpu().GetMems(), hadMems: had, kind: kind, ev: ev})
		switch {
		case c == nil:
			x.log = append(x.log, fmt.Sprintf("update-unknown-container|%s|%s carries an update for %s which the runtime never had", id, ev, id))
		case id == skipID:
			x.log = append(x.log, fmt.Sprintf("update-addresses-created-container|%s|%s reply carries an update for the container being created (%s)", id, ev, id))
			c.told.merge(r)
		case !c.live():
			x.log = append(x.log, fmt.Sprintf("update-dead-container|%s|%s carries an update for container %s which the runtime has %s", id, ev, id, lifeNames[c.life]))
		default:
			c.told.merge(r)
			c.toldN++
		}
	}
}

// step executes one event. It returns false if the event is not applicable in the current world state.
func (x *exec) step(ev string) *reply {
	rp := &reply{ev: ev}
	if x.last != nil {
		x.prevTarget = x.last.target
	}
	x.last = rp
	x.addrMark = len(x.addr)
	x.cfgBefore = x.w.cfgIdx
	prevSaves, prevKind := x.lastSaves, x.lastKind
	x.lastSaves, x.lastKind = nil, strings.Split(ev, ":")[0]
	cacheFile := filepath.Join(x.dir, "cache")
	vos.After = func(op *vos.Op) {
		if op.Kind == "rename" && op.To == cacheFile {
			if data, err := os.ReadFile(cacheFile); err == nil {
				x.lastSaves = append(x.lastSaves, data)
			}
		}
	}
	defer func() { vos.After = nil }()
	x.toldBefore = map[string]res{}
	for id, c := range x.w.byID {
		x.toldBefore[id] = c.told
	}
	f := strings.Split(ev, ":")
	w, p := x.w, x.in.m.nri
	ctx := context.Background()
	guard := func(fn func()) {
		pan, msg, where := mc.Guard(fn)
		if pan {
			rp.panic, rp.where = msg, where
			x.in.dead = true
		}
	}
	// inFlight models the time a reply spends between the handler's return (lock released) and its consumption by the
	// transport: under the controlled scheduler this is a scheduling point of its own, and the reply must still be what
	// the handler returned once the thread runs again (a reply that aliases plugin state is rewritten by the next handler).
	inFlight := func() {
		if sched.Active() == nil || rp.panic != "" {
			return
		}
		render := func() string {
			d, _ := json.Marshal(struct {
				A *api.ContainerAdjustment
				U []*api.ContainerUpdate
			}{rp.adjust, rp.updates})
			return string(d)
		}
		before := render()
		sched.Point("reply-in-flight:" + ev)
		if after := render(); after != before {
			x.replyChanged = append(x.replyChanged, fmt.Sprintf("%s: returned %s, consumed as %s", ev, before, after))
		}
	}
	switch f[0] {
	case "run":
		pod := w.pod(f[1])
		guard(func() { rp.err = p.RunPodSandbox(ctx, pod.nri()) })
		if rp.panic == "" && rp.err == nil {
			pod.life = lifeRunning
		}
	case "stoppod":
		pod := w.pod(f[1])
		guard(func() { rp.err = p.StopPodSandbox(ctx, pod.nri()) })
		pod.life = lifeStopped
	case "rmpod":
		pod := w.pod(f[1])
		guard(func() { rp.err = p.RemovePodSandbox(ctx, pod.nri()) })
		pod.life = lifeRemoved
		for _, c := range pod.ctrs {
			if c.life != lifeNone {
				c.life = lifeRemoved
			}
		}
	case "create":
		c := w.ctr(f[1])
		if c.life != lifeNone {
			// next incarnation of the same named container
			old := *c
			x.w.old = append(x.w.old, &old)
			w.byID[old.id()] = &old
			c.inc++
			c.life = lifeNone
			c.toldN = 0
			c.cold = false
		}
		t := c.spec.t
		c.req = updSpec{cpuReq: t.cpuReq, cpuLim: t.cpuLim, memLim: t.memLim}
		c.init = resFromNRI(encodeRes(c.req, res{Cpus: t.initCpus, Mems: t.initMems}))
		c.told = c.init
		c.cfgAtAdm = w.cfgIdx
		rp.target = c
		w.byID[c.id()] = c
		msg := c.nri(api.ContainerState_CONTAINER_CREATED, c.init)
		guard(func() { rp.adjust, rp.updates, rp.err = p.CreateContainer(ctx, c.pod.nri(), msg) })
		inFlight()
		if rp.panic != "" {
			break
		}
		if rp.err != nil {
			c.life = lifeFailed
			break
		}
		w.rank++
		c.rank = w.rank
		c.life = lifeCreated
		if rp.adjust != nil {
			r := rp.adjust.GetLinux().GetResources()
			c.told.merge(r)
			c.toldN++
			x.addr = append(x.addr, addressed{id: c.id(), cpus: r.GetCpu().GetCpus(), mems: r.GetCpu().GetMems(), hadMems: c.init.Mems, kind: "adjust", ev: ev})
		}
		x.applyUpdates(ev, "update", rp.updates, c.id())
	case "start":
		c := w.ctr(f[1])
		rp.target = c
		guard(func() { rp.err = p.StartContainer(ctx, c.pod.nri(), c.nri(c.state(), c.told)) })
		if rp.panic == "" && rp.err == nil && c.life == lifeCreated {
			c.life = lifeRunning
		}
	case "update":
		c := w.ctr(f[1])
		rp.target = c
		var idx int
		fmt.Sscanf(f[2], "%d", &idx)
		u := x.scn.updates[idx]
		if u.same {
			u = c.req
		}
		r := encodeRes(u, res{})
		if u.absent {
			r, u = nil, c.req
		}
		guard(func() { rp.updates, rp.err = p.UpdateContainer(ctx, c.pod.nri(), c.nri(c.state(), c.told), r) })
		inFlight()
		if rp.panic != "" {
			break
		}
		if rp.err == nil {
			// The resources the runtime itself asks for are deliberately not merged into the told-view:
			// the property speaks of what the plugin told the runtime, and the cache does not record them either.
			c.req = u
			x.applyUpdates(ev, "update", rp.updates, "")
		}
		// an error reply carries no payload: whatever the handler returned next to the error never reaches the runtime
	case "stop":
		c := w.ctr(f[1])
		rp.target = c
		guard(func() { rp.updates, rp.err = p.StopContainer(ctx, c.pod.nri(), c.nri(c.state(), c.told)) })
		inFlight()
		if rp.panic != "" {
			break
		}
		if c.live() {
			c.life = lifeStopped
		}
		if rp.err == nil {
			x.applyUpdates(ev, "update", rp.updates, "")
		}
	case "remove":
		c := w.ctr(f[1])
		rp.target = c
		guard(func() { rp.err = p.RemoveContainer(ctx, c.pod.nri(), c.nri(c.state(), c.told)) })
		if c.life != lifeNone {
			c.life = lifeRemoved
		}
	case "sync":
		pods, ctrs := x.runtimeLists()
		if x.frozenSync {
			// concurrent delivery: the runtime's lists were fixed when the request was issued (same inputs in every order)
			pods, ctrs = x.frozenLists()
		}
		guard(func() { rp.updates, rp.err = p.Synchronize(ctx, pods, ctrs) })
		inFlight()
		if rp.panic == "" && rp.err == nil {
			x.applyUpdates(ev, "update", rp.updates, "")
		}
	case "colddone":
		// The end of a cold-start period. The policy raises it from a timer through SendEvent; the event loop of this
		// commit drops policy events (processEvent has the delivery commented out), so it is delivered here the way the
		// policy.HandleEvent contract describes: under the resource manager lock, changes pushed when it reports any.
		c := w.ctr(f[1])
		rp.target = c
		c.cold = true
		m := x.in.m
		guard(func() {
			m.Lock()
			defer m.Unlock()
			changed, err := m.policy.HandleEvent(&resmgrevents.Policy{Type: tapolicy.ColdStartDone, Source: tapolicy.PolicyName, Data: c.id()})
			rp.err = err
			if changed {
				if err := pushPending(m); err != nil && rp.err == nil {
					rp.err = err
				}
			}
		})
		if rp.panic == "" {
			x.applyUpdates(ev, "push", rp.pushed, "")
		}
	case "reconf":
		var idx int
		fmt.Sscanf(f[1], "%d", &idx)
		cfg := x.scn.cfgs[idx].build()
		guard(func() { rp.err = x.in.m.reconfigure(cfg) })
		if rp.panic == "" {
			if rp.err == nil {
				w.cfgIdx = idx
			} else if x.evIndex >= 0 {
				x.rejected = append(x.rejected, x.evIndex)
				if x.rejectedLabels == nil {
					x.rejectedLabels = map[string]bool{}
				}
				x.rejectedLabels[x.scn.cfgs[idx].label] = true
			}
			x.applyUpdates(ev, "push", rp.pushed, "")
		}
	case "restart", "restartcut", "resync":
		// restart: a new plugin instance on the same state directory, then the runtime's Synchronize;
		// resync: the SAME instance is re-synchronised (the runtime restarted or reconnected) after the runtime's truth changed
		// behind the plugin's back - the policy still holds whatever it kept about the vanished containers
		if f[0] != "resync" {
			x.restarts++
		} else {
			x.resyncs++
		}
		if f[0] == "restartcut" {
			x.cutAfter = prevKind
			// the plugin died in the middle of the previous request: the state directory holds an intermediate save
			var k int
			fmt.Sscanf(f[1], "%d", &k)
			if k < len(prevSaves) {
				os.WriteFile(cacheFile, prevSaves[k], 0o644)
			}
			if prevKind == "create" && x.prevTarget != nil && x.prevTarget.life == lifeCreated {
				// the runtime aborts a container whose creation the plugin never answered
				x.prevTarget.life = lifeRemoved
			}
		}
		for _, variant := range f[1:] {
			switch {
			case f[0] == "restartcut":
			case variant == "allgone":
				for _, c := range w.ctrs {
					if c.life != lifeNone {
						c.life = lifeRemoved
					}
				}
			case strings.HasPrefix(variant, "gone="):
				if c := w.ctr(strings.TrimPrefix(variant, "gone=")); c != nil && c.life != lifeNone {
					c.life = lifeRemoved
				}
			case strings.HasPrefix(variant, "stopped="):
				if c := w.ctr(strings.TrimPrefix(variant, "stopped=")); c != nil && c.live() {
					c.life = lifeStopped
				}
			case strings.HasPrefix(variant, "podgone="):
				if pod := w.pod(strings.TrimPrefix(variant, "podgone=")); pod != nil {
					pod.life = lifeRemoved
					for _, c := range pod.ctrs {
						if c.life != lifeNone {
							c.life = lifeRemoved
						}
					}
				}
			case variant == "new":
				// the runtime created one more pod and container while the plugin was down
				for _, c := range w.ctrs {
					if c.life == lifeNone && c.pod.life == lifeRunning {
						t := c.spec.t
						c.req = updSpec{cpuReq: t.cpuReq, cpuLim: t.cpuLim, memLim: t.memLim}
						c.init = resFromNRI(encodeRes(c.req, res{Cpus: t.initCpus, Mems: t.initMems}))
						c.told = c.init
						w.rank++
						c.rank = w.rank
						c.life = lifeRunning
						c.cfgAtAdm = w.cfgIdx
						w.byID[c.id()] = c
						break
					}
				}
			}
		}
		if f[0] != "resync" {
			in, err := newInstRestart(x)
			if err != nil {
				rp.err = fmt.Errorf("restart failed: %w", err)
				x.in.dead = true
				break
			}
			x.in = in
			x.hookStub()
		}
		pods, ctrs := x.runtimeLists()
		guard(func() { rp.updates, rp.err = x.in.m.nri.Synchronize(ctx, pods, ctrs) })
		if rp.panic == "" && rp.err == nil {
			x.applyUpdates(ev, "update", rp.updates, "")
		}
	default:
		panic("unknown event " + ev)
	}
	if rp.err != nil && rp.panic == "" && x.evIndex >= 0 {
		if x.failedKinds == nil {
			x.failedKinds = map[string]bool{}
		}
		x.failedKinds[f[0]] = true
	}
	return rp
}

func newInstRestart(x *exec) (*inst, error) {
	var in *inst
	var err error
	pan, msg, where := mc.Guard(func() { in, err = newInst(x.scn, x.dir, x.w.cfgIdx) })
	if pan {
		return nil, fmt.Errorf("panic during start: %s at %s", msg, where)
	}
	return in, err
}

// runtimeLists is what the runtime reports in Synchronize.
func (x *exec) runtimeLists() ([]*api.PodSandbox, []*api.Container) {
	var pods []*api.PodSandbox
	var ctrs []*api.Container
	for _, p := range x.w.pods {
		if p.life == lifeRunning || p.life == lifeStopped {
			pods = append(pods, p.nri())
		}
	}
	all := append(append([]*wctr{}, x.w.ctrs...), x.w.old...)
	for _, c := range all {
		if c.pod.life != lifeRunning && c.pod.life != lifeStopped {
			continue
		}
		switch c.life {
		case lifeCreated, lifeRunning, lifeStopped:
			ctrs = append(ctrs, c.nri(c.state(), c.told))
		}
	}
	return pods, ctrs
}

// enabled lists the events offered in the current world state.
func (x *exec) enabled() []string {
	if x.in.dead {
		return nil
	}
	var evs []string
	m := x.scn.menu
	maxInc := x.scn.maxInc
	for _, p := range x.w.pods {
		if m.podRun && p.life == lifeNone {
			evs = append(evs, "run:"+p.slot)
		}
	}
	for _, c := range x.w.ctrs {
		podUp := c.pod.life == lifeRunning
		switch c.life {
		case lifeNone:
			if podUp {
				evs = append(evs, "create:"+c.slot)
			}
		case lifeCreated:
			if m.start {
				evs = append(evs, "start:"+c.slot)
			}
			fallthrough
		case lifeRunning:
			if m.coldDone && c.life == lifeRunning && x.coldTimerArmed(c.id()) {
				evs = append(evs, "colddone:"+c.slot)
			}
			if m.update {
				for i := range x.scn.updates {
					evs = append(evs, fmt.Sprintf("update:%s:%d", c.slot, i))
				}
			}
			if m.stop {
				evs = append(evs, "stop:"+c.slot)
			}
			if m.illFormed && m.remove {
				evs = append(evs, "remove:"+c.slot)
			}
		case lifeStopped:
			if m.remove {
				evs = append(evs, "remove:"+c.slot)
			}
			if podUp && c.inc < maxInc {
				evs = append(evs, "create:"+c.slot)
			}
			if m.illFormed && m.update && len(x.scn.updates) > 0 {
				evs = append(evs, fmt.Sprintf("update:%s:0", c.slot))
			}
		case lifeRemoved, lifeFailed:
			if podUp && c.inc < maxInc {
				evs = append(evs, "create:"+c.slot)
			}
		}
	}
	for _, p := range x.w.pods {
		if m.podStop && p.life == lifeRunning {
			quiet := true
			for _, c := range p.ctrs {
				if c.live() {
					quiet = false
				}
			}
			if quiet || m.illFormed {
				evs = append(evs, "stoppod:"+p.slot)
			}
		}
		if m.podRemove && p.life == lifeStopped {
			evs = append(evs, "rmpod:"+p.slot)
		}
	}
	if m.recreateLive && !m.illFormed {
		for _, c := range x.w.ctrs {
			if c.live() && c.inc < maxInc && c.pod.life == lifeRunning {
				evs = append(evs, "create:"+c.slot)
			}
		}
	}
	if m.illFormed {
		for _, c := range x.w.ctrs {
			switch c.life {
			case lifeRemoved:
				evs = append(evs, "start:"+c.slot, "stop:"+c.slot, "remove:"+c.slot)
				if len(x.scn.updates) > 0 {
					evs = append(evs, "update:"+c.slot+":0")
				}
			case lifeCreated, lifeRunning:
				if c.inc < maxInc {
					evs = append(evs, "create:"+c.slot) // same name created again while the old one is alive
				}
			case lifeNone:
				evs = append(evs, "start:"+c.slot, "stop:"+c.slot)
			case lifeFailed:
				// a container whose creation the plugin refused: the runtime never has it, yet events naming it can arrive
				evs = append(evs, "start:"+c.slot, "stop:"+c.slot, "remove:"+c.slot)
				for i := range x.scn.updates {
					evs = append(evs, fmt.Sprintf("update:%s:%d", c.slot, i))
				}
			}
		}
		for _, p := range x.w.pods {
			switch p.life {
			case lifeRunning:
				evs = append(evs, "run:"+p.slot, "rmpod:"+p.slot)
			case lifeRemoved:
				evs = append(evs, "stoppod:"+p.slot, "rmpod:"+p.slot)
			}
		}
	}
	if m.ghost {
		evs = append(evs, "stoppod:px", "rmpod:px", "create:cx", "start:cx", "stop:cx", "remove:cx")
		if len(x.scn.updates) > 0 {
			evs = append(evs, "update:cx:0")
		}
	}
	if m.sync {
		evs = append(evs, "sync")
	}
	for _, k := range m.reconf {
		evs = append(evs, fmt.Sprintf("reconf:%d", k))
	}
	if m.restart && x.restarts < 2 {
		evs = append(evs, "restart")
	}
	if m.restartTruth && x.restarts < 2 {
		anyLive, anyNone := false, false
		for _, c := range x.w.ctrs {
			if c.live() {
				anyLive = true
				evs = append(evs, "restart:gone="+c.slot, "restart:stopped="+c.slot)
			}
			if c.life == lifeNone && c.pod.life == lifeRunning {
				anyNone = true
			}
		}
		if anyLive {
			evs = append(evs, "restart:allgone")
			for _, p := range x.w.pods {
				for _, c := range p.ctrs {
					if c.live() {
						evs = append(evs, "restart:podgone="+p.slot)
						break
					}
				}
			}
		}
		if anyNone {
			evs = append(evs, "restart:new")
		}
	}
	if m.resyncTruth && x.resyncs < 1 {
		anyLive := false
		for _, p := range x.w.pods {
			n := 0
			for _, c := range p.ctrs {
				if c.live() {
					n++
				}
			}
			if n > 0 {
				anyLive = true
				evs = append(evs, "resync:podgone="+p.slot)
			}
		}
		if anyLive {
			evs = append(evs, "resync:allgone")
		}
	}
	if m.restartCuts && x.restarts < 2 && (x.lastKind == "create" || x.lastKind == "stop") {
		for k := 0; k+1 < len(x.lastSaves); k++ {
			evs = append(evs, fmt.Sprintf("restartcut:%d", k))
		}
	}
	return evs
}

// ---------------------------------------------------------------------------
// snapshots

type zoneSnap struct {
	Name, Parent, Type string
	Res                map[string][3]string // capacity, allocatable, available
	ResMilli           map[string][3]int64
	Attr               map[string]string
}

type cacheCtr struct {
	State   int
	Res     res
	Pending []string
	PodOK   bool
}

type memReq struct {
	ID   string
	Size int64
	Zone uint64
}

type snap struct {
	World    []string
	KeyOnly  []string // part of the state key only (history markers), never compared between executions
	Cfg      int
	Cache    map[string]cacheCtr
	Pending  []string
	Pods     []string
	Zones    []zoneSnap
	TA       *tapolicy.VerifSnap
	BL       *balloonspolicy.VerifSnap
	Export   map[string]map[string]string
	MemZone  map[string]uint64
	MemCap   map[uint64]int64 // capacity of every non-empty node subset
	MemAll   uint64           // mask of nodes with memory
	MemReqs  []memReq
	CPUClass map[string][]int
}

func (x *exec) allocator() *libmem.Allocator {
	if x.scn.policy == polTA {
		return tapolicy.VerifMemAllocator(x.in.backend)
	}
	return balloonspolicy.VerifMemAllocator(x.in.backend)
}

func (x *exec) snapshot() *snap {
	s := &snap{Cfg: x.w.cfgIdx, Cache: map[string]cacheCtr{}, Export: map[string]map[string]string{}, MemZone: map[string]uint64{}}
	all := append(append([]*wctr{}, x.w.ctrs...), x.w.old...)
	sort.Slice(all, func(i, j int) bool { return all[i].id() < all[j].id() })
	for _, p := range x.w.pods {
		s.World = append(s.World, fmt.Sprintf("%s=%s", p.slot, lifeNames[p.life]))
	}
	for _, c := range all {
		s.World = append(s.World, fmt.Sprintf("%s=%s/%d/%+v/%+v", c.id(), lifeNames[c.life], c.rank, c.told, c.req))
		if c.cold {
			s.World = append(s.World, c.id()+"=cold-start-ended")
		}
	}
	if x.scn.menu.restartCuts {
		s.World = append(s.World, fmt.Sprintf("last=%s/%d", x.lastKind, len(x.lastSaves)))
	}
	if x.in.dead {
		return s
	}
	m := x.in.m
	cs := m.cache.GetContainers()
	for _, c := range cs {
		cc := cacheCtr{State: int(c.GetState()), Pending: c.GetPending()}
		cc.Res = res{Cpus: c.GetCpusetCpus(), Mems: c.GetCpusetMems(), Shares: uint64(c.GetCPUShares()), Quota: c.GetCPUQuota(),
			Period: uint64(c.GetCPUPeriod()), MemLimit: c.GetMemoryLimit(), Swap: c.GetMemorySwap()}
		_, cc.PodOK = c.GetPod()
		sort.Strings(cc.Pending)
		s.Cache[c.GetID()] = cc
		if d := x.in.backend.ExportResourceData(c); d != nil {
			s.Export[c.GetID()] = d
		}
	}
	for _, c := range m.cache.GetPendingContainers() {
		s.Pending = append(s.Pending, c.GetID())
	}
	// hidden state made visible: implicit affinities registered in the cache, and which kinds of configuration update have
	// been rejected so far (a rejected update must leave no trace - if it leaves one the accessors cannot see, merging the
	// state with the one that never saw the update would keep the search from ever exploring its consequences)
	if names := cachepkg.VerifImplicitAffinities(x.rawCache()); len(names) > 0 {
		s.World = append(s.World, "implicit-affinities="+strings.Join(names, ","))
	}
	if len(x.failedKinds) > 0 {
		// refused requests are where invisible leftovers come from: a state reached through one is kept apart
		var ks []string
		for k := range x.failedKinds {
			ks = append(ks, k)
		}
		sort.Strings(ks)
		s.KeyOnly = append(s.KeyOnly, "refused-requests="+strings.Join(ks, ","))
	}
	if len(x.rejectedLabels) > 0 {
		var ls []string
		for l := range x.rejectedLabels {
			ls = append(ls, l)
		}
		sort.Strings(ls)
		s.KeyOnly = append(s.KeyOnly, "rejected-updates="+strings.Join(ls, ","))
	}
	sort.Strings(s.Pending)
	for _, p := range m.cache.GetPods() {
		s.Pods = append(s.Pods, p.GetID())
	}
	sort.Strings(s.Pods)
	for _, z := range m.policy.GetTopologyZones() {
		zs := zoneSnap{Name: z.Name, Parent: z.Parent, Type: z.Type, Res: map[string][3]string{}, ResMilli: map[string][3]int64{}, Attr: map[string]string{}}
		for _, r := range z.Resources {
			zs.Res[r.Name] = [3]string{r.Capacity.String(), r.Allocatable.String(), r.Available.String()}
			zs.ResMilli[r.Name] = [3]int64{r.Capacity.MilliValue(), r.Allocatable.MilliValue(), r.Available.MilliValue()}
		}
		for _, a := range z.Attributes {
			zs.Attr[a.Name] = a.Value
		}
		s.Zones = append(s.Zones, zs)
	}
	sort.Slice(s.Zones, func(i, j int) bool { return s.Zones[i].Name < s.Zones[j].Name })
	if x.scn.policy == polTA {
		s.TA = tapolicy.VerifSnapshot(x.in.backend)
	} else {
		s.BL = balloonspolicy.VerifSnapshot(x.in.backend)
	}
	if a := x.allocator(); a != nil {
		a.ForeachRequest(nil, func(r *libmem.Request) bool {
			s.MemReqs = append(s.MemReqs, memReq{ID: r.ID(), Size: r.Size(), Zone: uint64(r.Zone())})
			return true
		})
		sort.Slice(s.MemReqs, func(i, j int) bool { return s.MemReqs[i].ID < s.MemReqs[j].ID })
		for id := range x.w.byID {
			if z, ok := a.AssignedZone(id); ok {
				s.MemZone[id] = uint64(z)
			}
		}
		all := uint64(a.Masks().AvailableNodes())
		s.MemAll = uint64(a.Masks().NodesWithMem())
		s.MemCap = map[uint64]int64{}
		if all < 256 {
			for m := uint64(1); m <= all; m++ {
				if m&^all == 0 {
					s.MemCap[m] = a.ZoneCapacity(libmem.NodeMask(m))
				}
			}
		}
	}
	s.CPUClass = cpuctl.VerifClassAssignments(m.cache)
	return s
}

func (s *snap) key() string {
	data, err := json.Marshal(s)
	if err != nil {
		panic(err)
	}
	return mc.Hash(string(data))
}

// freezeSync fixes what a later Synchronize will list (used when requests are delivered concurrently).
func (x *exec) freezeSync() {
	x.frozenSync = true
	x.frozenLife = map[string]int{}
	for _, p := range x.w.pods {
		if p.life == lifeRunning || p.life == lifeStopped {
			x.frozenPods = append(x.frozenPods, p.slot)
		}
	}
	for _, c := range x.w.ctrs {
		if (c.pod.life == lifeRunning || c.pod.life == lifeStopped) && (c.life == lifeCreated || c.life == lifeRunning || c.life == lifeStopped) {
			x.frozenCtrs = append(x.frozenCtrs, c.slot)
			x.frozenLife[c.slot] = c.life
		}
	}
}

func (x *exec) frozenLists() ([]*api.PodSandbox, []*api.Container) {
	var pods []*api.PodSandbox
	var ctrs []*api.Container
	for _, slot := range x.frozenPods {
		pods = append(pods, x.w.pod(slot).nri())
	}
	for _, slot := range x.frozenCtrs {
		c := x.w.ctr(slot)
		st := api.ContainerState_CONTAINER_CREATED
		switch x.frozenLife[slot] {
		case lifeRunning:
			st = api.ContainerState_CONTAINER_RUNNING
		case lifeStopped:
			st = api.ContainerState_CONTAINER_STOPPED
		}
		ctrs = append(ctrs, c.nri(st, c.told))
	}
	return pods, ctrs
}

// rawCache returns the resource manager's cache without the C15 access-checking proxy.
func (x *exec) rawCache() cachepkg.Cache {
	if p, ok := x.in.m.cache.(*c15Cache); ok {
		return p.Cache
	}
	return x.in.m.cache
}
