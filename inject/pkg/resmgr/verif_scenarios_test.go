//go:build verif

package resmgr

import (
	"fmt"
	"strings"

	cfgapi "github.com/containers/nri-plugins/pkg/apis/config/v1alpha1"
	policycfg "github.com/containers/nri-plugins/pkg/apis/config/v1alpha1/resmgr/policy"
	blcfg "github.com/containers/nri-plugins/pkg/apis/config/v1alpha1/resmgr/policy/balloons"
	resmgrapi "github.com/containers/nri-plugins/pkg/apis/resmgr/v1alpha1"
	"github.com/containers/nri-plugins/pkg/verif/sysgen"
)

// machines

func machine16() *sysgen.Spec {
	return &sysgen.Spec{Name: "2s2n2c2t", Packages: 2, NodesPerDie: 2, CoresPerNode: 2, Threads: 2}
}

func machine16iso() *sysgen.Spec {
	return &sysgen.Spec{Name: "2s2n2c2t-iso", Packages: 2, NodesPerDie: 2, CoresPerNode: 2, Threads: 2, Isolated: []int{3, 11}}
}

func machine8() *sysgen.Spec {
	return &sysgen.Spec{Name: "1s2n2c2t", Packages: 1, NodesPerDie: 2, CoresPerNode: 2, Threads: 2}
}

func machine16dies() *sysgen.Spec {
	return &sysgen.Spec{Name: "2s2d1n2c2t", Packages: 2, Dies: 2, NodesPerDie: 1, CoresPerNode: 2, Threads: 2}
}

func machine8noht() *sysgen.Spec {
	return &sysgen.Spec{Name: "2s2n2c1t", Packages: 2, NodesPerDie: 2, CoresPerNode: 2, Threads: 1}
}

// topology-aware configurations

type taOpt func(c *cfgapi.TopologyAwarePolicy)

func taCfg(label string, opts ...taOpt) cfgSpec {
	return cfgSpec{label: label, build: func() cfgapi.ResmgrConfig {
		c := &cfgapi.TopologyAwarePolicy{}
		c.Name = "default"
		c.Spec.Config.PinCPU = true
		c.Spec.Config.PinMemory = true
		c.Spec.Config.ReservedResources = policycfg.Constraints{policycfg.CPU: "750m"}
		for _, o := range opts {
			o(c)
		}
		return c
	}}
}

func taReserved(v string) taOpt {
	return func(c *cfgapi.TopologyAwarePolicy) {
		c.Spec.Config.ReservedResources = policycfg.Constraints{policycfg.CPU: policycfg.Amount(v)}
	}
}

func taAvailable(v string) taOpt {
	return func(c *cfgapi.TopologyAwarePolicy) {
		c.Spec.Config.AvailableResources = policycfg.Constraints{policycfg.CPU: policycfg.Amount(v)}
	}
}

func taNoReserved() taOpt {
	return func(c *cfgapi.TopologyAwarePolicy) { c.Spec.Config.ReservedResources = nil }
}

func taPin(cpu, mem bool) taOpt {
	return func(c *cfgapi.TopologyAwarePolicy) { c.Spec.Config.PinCPU, c.Spec.Config.PinMemory = cpu, mem }
}

func taPreferShared(b bool) taOpt {
	return func(c *cfgapi.TopologyAwarePolicy) { c.Spec.Config.PreferShared = &b }
}

func taPreferIsolated(b bool) taOpt {
	return func(c *cfgapi.TopologyAwarePolicy) { c.Spec.Config.PreferIsolated = &b }
}

func taReservedNS(ns ...string) taOpt {
	return func(c *cfgapi.TopologyAwarePolicy) { c.Spec.Config.ReservedPoolNamespaces = ns }
}

// templates

const (
	miB = int64(1) << 20
	giB = int64(1) << 30
)

var (
	tG1    = &tmpl{name: "G1", cpuReq: 1000, cpuLim: 1000, memLim: 100 * miB}
	tG2    = &tmpl{name: "G2", cpuReq: 2000, cpuLim: 2000, memLim: 100 * miB}
	tG3    = &tmpl{name: "G3", cpuReq: 3000, cpuLim: 3000, memLim: 100 * miB}
	tG4    = &tmpl{name: "G4", cpuReq: 4000, cpuLim: 4000, memLim: 100 * miB}
	tG1500 = &tmpl{name: "G1500", cpuReq: 1500, cpuLim: 1500, memLim: 100 * miB}
	tG2500 = &tmpl{name: "G2500", cpuReq: 2500, cpuLim: 2500, memLim: 100 * miB}
	tG500  = &tmpl{name: "G500", cpuReq: 500, cpuLim: 500, memLim: 100 * miB}
	tB500  = &tmpl{name: "B500", cpuReq: 500, cpuLim: 1000, memLim: 200 * miB}
	tB1500 = &tmpl{name: "B1500", cpuReq: 1500, cpuLim: 2000, memLim: 200 * miB}
	tB200  = &tmpl{name: "B200", cpuReq: 200, cpuLim: 0, memLim: 0}
	tB3000 = &tmpl{name: "B3000", cpuReq: 3000, cpuLim: 4000, memLim: 200 * miB}
	tB5000 = &tmpl{name: "B5000", cpuReq: 5000, cpuLim: 6000, memLim: 200 * miB}
	tB9000 = &tmpl{name: "B9000", cpuReq: 9000, cpuLim: 10000, memLim: 200 * miB}
	tB600  = &tmpl{name: "B600", cpuReq: 600, cpuLim: 0, memLim: 0}
	tBE    = &tmpl{name: "BE"}
	tBEpin = &tmpl{name: "BEpin", initCpus: "0,15", initMems: "0,3"}
	tG2pin = &tmpl{name: "G2pin", cpuReq: 2000, cpuLim: 2000, memLim: 100 * miB, initCpus: "0,15", initMems: "0,3"}
	tB5pin = &tmpl{name: "B500pin", cpuReq: 500, cpuLim: 1000, memLim: 200 * miB, initCpus: "0,15", initMems: "0,3"}
)

func pod1(name, ns, qos string, t *tmpl, ann map[string]string) podSpec {
	return podSpec{name: name, ns: ns, qos: qos, annotations: ann, ctrs: []ctrSpec{{name: "c", t: t}}}
}

func qosOf(t *tmpl) string {
	switch {
	case t.cpuReq == 0 && t.memLim == 0 && t.cpuLim == 0:
		return "BestEffort"
	case t.cpuReq == t.cpuLim && t.memLim > 0:
		return "Guaranteed"
	}
	return "Burstable"
}

// pods builds one single-container pod per template in namespace "default".
func pods(ts ...*tmpl) []podSpec {
	var out []podSpec
	for i, t := range ts {
		out = append(out, pod1(fmt.Sprintf("pod%d", i), "default", qosOf(t), t, nil))
	}
	return out
}

func runAll(n int) []string {
	var p []string
	for i := 0; i < n; i++ {
		p = append(p, fmt.Sprintf("run:p%d", i))
	}
	return p
}

var lifecycleMenu = menu{stop: true, remove: true}

// taScenarios is the topology-aware scenario family shared by C01/C03/C05/C09.
func taScenarios(thorough bool) []*scenario {
	var out []*scenario
	add := func(name string, m *sysgen.Spec, cfgs []cfgSpec, ps []podSpec, mn menu, ups []updSpec) {
		s := &scenario{name: name, policy: polTA, machine: m, cfgs: cfgs, pods: ps, menu: mn, updates: ups, depth: 5, maxInc: 1}
		s.prefix = runAll(len(ps))
		out = append(out, s)
	}
	std := []cfgSpec{taCfg("rsv750m")}
	big := []updSpec{{label: "to-1500m", cpuReq: 1500, cpuLim: 1500, memLim: 100 * miB}, {label: "to-64cpu", cpuReq: 64000, cpuLim: 64000, memLim: 100 * miB}}
	ks := pod1("ks", "kube-system", "Burstable", tB200, nil)

	add("ta/G2-G1500-B500", machine16(), std, pods(tG2, tG1500, tB500), menu{stop: true, remove: true, sync: true}, nil)
	add("ta/G4-B500-BE", machine16(), std, pods(tG4, tB500, tBE), menu{stop: true, remove: true}, nil)
	add("ta/G2-G2-KS+reconf", machine16(), []cfgSpec{taCfg("rsv750m"), taCfg("rsv-cpuset", taReserved("cpuset:0,8"))},
		append(pods(tG2, tG2), ks), menu{stop: true, remove: true, reconf: []int{0, 1}}, nil)
	add("ta/G2-B500+update", machine16(), std, pods(tG2, tB500, tG1), menu{stop: true, update: true}, big)
	// one pool only: an update that is refused after the container's old grant was released has already widened the shared
	// set of every other container of the machine
	add("ta/1pool/G2-B500-B200+update", &sysgen.Spec{Name: "1s1n4c2t", Packages: 1, NodesPerDie: 1, CoresPerNode: 4, Threads: 2}, std, pods(tG2, tB500, tB200), menu{stop: true, update: true}, big)
	// ancestors nearly full (one container only the root can hold, two in NUMA-node pools), then an update that grows a
	// leaf container by more than the root has left but less than its own pool has: admission must look at the ancestors
	add("ta/full-ancestors/B9000-B2500-B2500+update", machine16(), std,
		pods(&tmpl{name: "B9000", cpuReq: 9000, cpuLim: 10000, memLim: 200 * miB}, &tmpl{name: "B2500", cpuReq: 2500, cpuLim: 3000, memLim: 200 * miB}, &tmpl{name: "B2500", cpuReq: 2500, cpuLim: 3000, memLim: 200 * miB}),
		menu{stop: true, update: true}, []updSpec{{label: "to-4000m", cpuReq: 4000, cpuLim: 4500, memLim: 200 * miB}, {label: "to-2500m", cpuReq: 2500, cpuLim: 3000, memLim: 200 * miB}})
	// a container with more exclusive CPUs than a socket has: its grant sits in the root pool, two levels above the leaves
	add("ta/root-grant/G9-G1", machine16(), std, pods(&tmpl{name: "G9", cpuReq: 9000, cpuLim: 9000, memLim: 200 * miB}, tG1), menu{stop: true, remove: true}, nil)
	add("ta/iso/G1-G2-B500", machine16iso(), std, pods(tG1, tG2, tB500), menu{stop: true, remove: true, sync: true}, nil)
	add("ta/avail/G2-G1500-BE", machine16(), []cfgSpec{taCfg("avail", taAvailable("cpuset:0-6,8-14"), taReserved("cpuset:0"))}, pods(tG2, tG1500, tBE), menu{stop: true, remove: true}, nil)
	add("ta/8cpu/G3-B1500-B500", machine8(), std, pods(tG3, tB1500, tB500), menu{stop: true, remove: true}, nil)
	add("ta/dies/G2-G4-B500", machine16dies(), std, pods(tG2, tG4, tB500), menu{stop: true, remove: true}, nil)
	// kernel-isolated CPUs that are actually handed out (preferIsolated on), released and competed for again by a request
	// that cannot be isolated as a whole
	add("ta/iso-preferred/G2-G1-G3-B500", machine16iso(), []cfgSpec{taCfg("iso", taPreferIsolated(true))}, pods(tG2, tG1, tG3, tB500), menu{stop: true, remove: true}, nil)
	// a kernel-isolated CPU used as THE reserved CPU (accepted by design) while isolated CPUs are handed out exclusively
	add("ta/iso-reserved/KS-G1-G1-B500", machine16iso(), []cfgSpec{taCfg("rsv-iso3", taReserved("cpuset:3"), taPreferIsolated(true))},
		append([]podSpec{ks}, pods(tG1, tG1, tB500)...), menu{stop: true, remove: true}, nil)
	// the reservation is a QUANTITY and an accepted update moves the available set away from the CPU that was picked for it
	add("ta/reconf-moves-reserved-quantity/KS-B500-G1", machine16(),
		[]cfgSpec{taCfg("rsv750m"), taCfg("avail-8-15", taAvailable("cpuset:8-15")), taCfg("avail-4-11", taAvailable("cpuset:4-11"))},
		append([]podSpec{ks}, pods(tB500, tG1)...), menu{stop: true, reconf: []int{0, 1, 2}}, nil)
	// a container that keeps its own CPUs (cpu.preserve) but has a CPU request: it is booked in the root pool and released again
	add("ta/preserve-with-request/G2pres-B500-B1500", machine16(), std,
		[]podSpec{pod1("p", "default", "Guaranteed", tG2pin, map[string]string{annPreserveCPU: "true"}), pods(tB500)[0], pod1("q", "default", "Burstable", tB1500, nil)}, menu{stop: true, remove: true}, nil)
	// accepted reconfigurations that take away the very CPUs exclusive grants sit on (available set shrunk to either half,
	// reserved set moved onto either half): the grants cannot be reinstated verbatim and the policy re-allocates everything
	add("ta/reconf-takes-granted-cpus/G2-B500-KS", machine16(),
		[]cfgSpec{taCfg("rsv750m"), taCfg("avail-low", taAvailable("cpuset:0-7"), taReserved("cpuset:0")), taCfg("avail-high", taAvailable("cpuset:0,8-15"), taReserved("cpuset:0")),
			taCfg("rsv-low", taReserved("cpuset:0-3")), taCfg("rsv-high", taReserved("cpuset:8-11"))},
		append(pods(tG2, tB500), ks), menu{stop: true, remove: true, reconf: []int{0, 1, 2, 3, 4}}, nil)
	// the runtime loses containers behind the plugin's back (runtime restart) and re-synchronises the same plugin instance:
	// several containers with shared grants vanish in one Synchronize
	add("ta/resync/duo(B500+B1500)-B500-G1", machine16(), std,
		[]podSpec{{name: "duo", ns: "default", qos: "Burstable", ctrs: []ctrSpec{{name: "c", t: tB500}, {name: "d", t: tB1500}}}, pods(tB500)[0], pod1("g", "default", "Guaranteed", tG1, nil)},
		menu{stop: true, resyncTruth: true}, nil)
	// reserved namespaces come and go by reconfiguration while containers of such a namespace come and go
	add("ta/rsvns-reconf/mon-B500-mon", machine16(), []cfgSpec{taCfg("rsvns", taReservedNS("monitor*")), taCfg("no-rsvns")},
		[]podSpec{pod1("m1", "monitoring", "Burstable", tB200, nil), pods(tB500)[0], pod1("m2", "monitoring", "Burstable", tB200, nil)}, menu{stop: true, reconf: []int{0, 1}}, nil)
	// containers that carry RDT / block I/O class annotations (the cache assigns the class while the container is being inserted)
	add("ta/class-annotated/G2-B500-BE", machine16(), std,
		[]podSpec{pod1("a", "default", "Guaranteed", tG2, map[string]string{"blockioclass." + annNS + "/container.c": "slow"}),
			pod1("b", "default", "Burstable", tB500, map[string]string{"rdtclass." + annNS + "/pod": "gold"}), pods(tBE)[0]}, menu{start: true, stop: true}, nil)
	// containers that are given devices with NUMA locality: topology hints steer the pool choice
	// (coverage.sh: none of the hint scoring ever ran)
	m16dev := machine16()
	m16dev.Name += "+devices"
	m16dev.Devices = []sysgen.Device{{Major: 240, Minor: 0, Node: 3, CPUs: "6-7,14-15"}, {Major: 240, Minor: 1, Node: 0, CPUs: "0-1,8-9"}}
	g1dev3 := &tmpl{name: "G1dev3", cpuReq: 1000, cpuLim: 1000, memLim: 100 * miB, dev: [2]int64{240, 0}}
	b5dev0 := &tmpl{name: "B500dev0", cpuReq: 500, cpuLim: 1000, memLim: 200 * miB, dev: [2]int64{240, 1}}
	add("ta/device-hints/G1(dev@3)-B500(dev@0)-G2-B500", m16dev, std, pods(g1dev3, b5dev0, tG2, tB500), menu{stop: true, remove: true}, nil)
	// explicit affinity and anti-affinity between containers: pool choice is driven by where other containers sit
	// (coverage.sh showed the affinity part of the pool scoring was never executed)
	affTo0 := "c:\n- scope:\n    key: namespace\n    operator: In\n    values: [ default ]\n  match:\n    key: pod/name\n    operator: In\n    values: [ pod0 ]\n  weight: 10\n"
	add("ta/affinity/G1-B500(aff)-B500(anti)-G2(aff)", machine16(), std,
		[]podSpec{pods(tG1)[0], pod1("near", "default", "Burstable", tB500, map[string]string{annNS + "/affinity": affTo0}),
			pod1("far", "default", "Burstable", tB500, map[string]string{annNS + "/anti-affinity": affTo0}),
			pod1("near2", "default", "Guaranteed", tG2, map[string]string{annNS + "/affinity": affTo0})}, menu{stop: true, remove: true}, nil)
	// shared containers in inner pools (too big for a NUMA node / a socket) next to exclusive grants below them
	add("ta/inner/B5000-G2-B500", machine16(), std, pods(tB5000, tG2, tB500), menu{stop: true, remove: true}, nil)
	add("ta/inner/B9000-G2-G1500", machine16(), std, pods(tB9000, tG2, tG1500), menu{stop: true, remove: true}, nil)
	// the root pool tighter than the sockets: a root-level shared grant, then leaf pools filled to the brim
	add("ta/brim/B9000-B3000x3", machine16(), std, pods(tB9000, tB3000, tB3000, tB3000), menu{stop: true}, nil)
	// reserved-class containers that exceed the reserved capacity (fallback to shared CPUs)
	add("ta/rsv-overflow/KS600-KS600-B500", machine16(), std,
		[]podSpec{pod1("ks1", "kube-system", "Burstable", tB600, nil), pod1("ks2", "kube-system", "Burstable", tB600, nil), pods(tB500)[0]}, menu{stop: true, remove: true}, nil)
	// annotated preferences: shared-preferring Guaranteed, hidden hyperthreads, reserved annotation outside kube-system
	add("ta/annotated/G2shared-G2hideht-B500rsv", machine16(), std,
		[]podSpec{pod1("a", "default", "Guaranteed", tG2, map[string]string{annPreferShared + "/pod": "true"}),
			pod1("b", "default", "Guaranteed", tG2, map[string]string{annHideHT + "/container.c": "true"}),
			pod1("c", "default", "Burstable", tB500, map[string]string{annPreferRsvd: "true"})}, menu{stop: true, remove: true}, nil)
	if thorough {
		add("ta/G2500-G1-B500-KS", machine16(), std, append(pods(tG2500, tG1, tB500), ks), menu{stop: true, remove: true, sync: true}, nil)
		add("ta/noht/G2-G2-G2-B500", machine8noht(), std, pods(tG2, tG2, tG2, tB500), menu{stop: true, remove: true}, nil)
		add("ta/prefer-shared/G2-G1-B500", machine16(), []cfgSpec{taCfg("prefshared", taPreferShared(true))}, pods(tG2, tG1, tB500), menu{stop: true, remove: true}, nil)
		add("ta/rsvns/G2-B500-mon", machine16(), []cfgSpec{taCfg("rsvns", taReservedNS("monitor*"))},
			append(pods(tG2, tB500), pod1("mon", "monitoring", "Burstable", tB200, nil)), menu{stop: true, remove: true, sync: true}, nil)
		for _, s := range out {
			s.depth = 6
		}
	}
	return out
}

// c09Scenarios: the shared frames plus failing requests, resynchronisation, reconfiguration between stop and remove, restart.
func c09Scenarios(thorough bool) []*scenario {
	out := taScenarios(thorough)
	add := func(name string, m *sysgen.Spec, cfgs []cfgSpec, ps []podSpec, mn menu, ups []updSpec) {
		s := &scenario{name: name, policy: polTA, machine: m, cfgs: cfgs, pods: ps, menu: mn, updates: ups, depth: 5, maxInc: 1}
		if thorough {
			s.depth = 6
		}
		s.prefix = runAll(len(ps))
		out = append(out, s)
	}
	std := []cfgSpec{taCfg("rsv750m")}
	// capacity exhaustion: the third G3 cannot fit on 8 CPUs
	add("ta/c09/exhaust-G3x3", machine8(), std, pods(tG3, tG3, tG3), menu{stop: true, remove: true, sync: true}, nil)
	add("ta/c09/reconf-between-stop-and-remove", machine16(), []cfgSpec{taCfg("rsv750m"), taCfg("rsv2", taReserved("cpuset:0,8"))},
		pods(tG2, tB500), menu{stop: true, remove: true, sync: true, reconf: []int{0, 1}}, nil)
	add("ta/c09/restart", machine16(), std, pods(tG2, tB500, tBE), menu{stop: true, remove: true, restart: true}, nil)
	add("ta/c09/recreate", machine16(), std, pods(tG2, tG1500), menu{stop: true, remove: true}, nil)
	out[len(out)-1].maxInc = 2
	bl := blScenarios(thorough)
	for _, s := range bl {
		if s.name == "bl/dyn-share-system" {
			s.menu.restart = true
		}
		if s.name == "bl/default-reserved" {
			s.maxInc = 2
		}
	}
	return append(out, bl...)
}

// ---------------------------------------------------------------------------
// balloons

type blOpt func(c *cfgapi.BalloonsPolicy)

func blCfg(label string, defs []*blcfg.BalloonDef, opts ...blOpt) cfgSpec {
	return cfgSpec{label: label, build: func() cfgapi.ResmgrConfig {
		c := &cfgapi.BalloonsPolicy{}
		c.Name = "default"
		c.Spec.Config.ReservedResources = policycfg.Constraints{policycfg.CPU: "1"}
		show := true
		c.Spec.Config.ShowContainersInNrt = &show
		for _, d := range defs {
			c.Spec.Config.BalloonDefs = append(c.Spec.Config.BalloonDefs, d.DeepCopy())
		}
		for _, o := range opts {
			o(c)
		}
		return c
	}}
}

func blReserved(v string) blOpt {
	return func(c *cfgapi.BalloonsPolicy) {
		c.Spec.Config.ReservedResources = policycfg.Constraints{policycfg.CPU: policycfg.Amount(v)}
	}
}

func blAvailable(v string) blOpt {
	return func(c *cfgapi.BalloonsPolicy) {
		c.Spec.Config.AvailableResources = policycfg.Constraints{policycfg.CPU: policycfg.Amount(v)}
	}
}

func blIdleClass(cl string) blOpt {
	return func(c *cfgapi.BalloonsPolicy) { c.Spec.Config.IdleCpuClass = cl }
}

func blPin(cpu, mem bool) blOpt {
	return func(c *cfgapi.BalloonsPolicy) { c.Spec.Config.PinCPU, c.Spec.Config.PinMemory = &cpu, &mem }
}

func bptr(b bool) *bool { return &b }

func nsPod(name, ns string, t *tmpl, ann map[string]string) podSpec {
	return pod1(name, ns, qosOf(t), t, ann)
}

func blScenarios(thorough bool) []*scenario {
	var out []*scenario
	add := func(name string, m *sysgen.Spec, cfgs []cfgSpec, ps []podSpec, mn menu) *scenario {
		s := &scenario{name: name, policy: polBalloons, machine: m, cfgs: cfgs, pods: ps, menu: mn, depth: 5, maxInc: 1}
		if thorough {
			s.depth = 6
		}
		s.prefix = runAll(len(ps))
		out = append(out, s)
		return s
	}
	lm := menu{stop: true, remove: true}
	// 1. dynamic balloons with minCPUs, idle sharing at system scope
	dyn := []*blcfg.BalloonDef{
		{Name: "dyn", Namespaces: []string{"dyn*"}, MinCpus: 1, MaxCpus: 4, PreferNewBalloons: true, ShareIdleCpusInSame: blcfg.CPUTopologyLevelSystem},
		{Name: "share", Namespaces: []string{"share"}, MinBalloons: 1, MinCpus: 1, ShareIdleCpusInSame: blcfg.CPUTopologyLevelSystem},
	}
	add("bl/dyn-share-system", machine16(), []cfgSpec{blCfg("dyn", dyn)},
		[]podSpec{nsPod("a", "dyn1", tG2, nil), nsPod("b", "dyn1", tB500, nil), nsPod("c", "share", tB500, nil)}, lm)
	// 2. numa-scope sharing, hidden hyperthreads, cpu classes
	numa := []*blcfg.BalloonDef{
		{Name: "fast", Namespaces: []string{"fast"}, MinCpus: 2, MaxCpus: 4, MinBalloons: 1, CpuClass: "turbo", ShareIdleCpusInSame: blcfg.CPUTopologyLevelNuma, HideHyperthreads: bptr(true)},
		{Name: "slow", Namespaces: []string{"slow"}, MaxCpus: 2, MaxBalloons: 2, CpuClass: "eco", PreferSpreadingPods: true},
	}
	add("bl/numa-hideht-classes", machine16(), []cfgSpec{blCfg("numa", numa, blIdleClass("idle"))},
		[]podSpec{nsPod("a", "fast", tG2, nil), nsPod("b", "slow", tG1, nil), nsPod("c", "slow", tB500, nil)}, lm)
	// 3. default + reserved only, kube-system container, package-scope sharing on default via explicit definition
	dflt := []*blcfg.BalloonDef{
		{Name: "default", MinBalloons: 1, MaxBalloons: 1, ShareIdleCpusInSame: blcfg.CPUTopologyLevelPackage},
	}
	add("bl/default-reserved", machine16(), []cfgSpec{blCfg("dflt", dflt, blReserved("cpuset:0,8"))},
		[]podSpec{nsPod("ks", "kube-system", tB200, nil), nsPod("a", "default", tG2, nil), nsPod("b", "default", tBE, nil)}, menu{stop: true, remove: true, sync: true})
	// 4. annotated balloon choice, per-namespace balloons, available cpuset, reconfigure
	ann := []*blcfg.BalloonDef{
		{Name: "pinned", MinCpus: 1, MaxCpus: 2, MaxBalloons: 2, PreferPerNamespaceBalloon: true},
		{Name: "big", Namespaces: []string{"big"}, MinCpus: 2, ShareIdleCpusInSame: blcfg.CPUTopologyLevelNuma},
	}
	ann2 := []*blcfg.BalloonDef{
		{Name: "pinned", MinCpus: 2, MaxCpus: 2, MaxBalloons: 2, PreferPerNamespaceBalloon: true},
		{Name: "big", Namespaces: []string{"big"}, MinCpus: 2, ShareIdleCpusInSame: blcfg.CPUTopologyLevelNuma},
	}
	add("bl/annotated-avail-reconf", machine16(), []cfgSpec{blCfg("ann", ann, blAvailable("cpuset:0-13")), blCfg("ann2", ann2, blAvailable("cpuset:0-13"))},
		[]podSpec{nsPod("a", "n1", tG1, map[string]string{annBalloon: "pinned"}), nsPod("b", "n2", tB500, map[string]string{annBalloon: "pinned"}), nsPod("c", "big", tG2, nil)},
		menu{stop: true, remove: true, reconf: []int{0, 1}})
	// 4b. configuration updates that only change CPU classes (a short-cut path of Reconfigure), back and forth
	cls := func(fast, idle string) cfgSpec {
		return blCfg("cls-"+fast+"-"+idle, []*blcfg.BalloonDef{
			{Name: "fast", Namespaces: []string{"fast"}, MinCpus: 2, MaxCpus: 4, MinBalloons: 1, CpuClass: fast},
			{Name: "slow", Namespaces: []string{"slow"}, MaxCpus: 2, CpuClass: "eco"},
		}, blIdleClass(idle))
	}
	add("bl/classes-only-reconf", machine16(), []cfgSpec{cls("turbo", "idle"), cls("powersave", "idle"), cls("turbo", "lazy")},
		[]podSpec{nsPod("a", "fast", tG2, nil), nsPod("b", "slow", tG1, nil)}, menu{stop: true, reconf: []int{0, 1, 2}})
	// 4c. containers vanish from the runtime behind the plugin's back, then the same instance is re-synchronised
	add("bl/resync/duo-in-one-balloon", machine16(), []cfgSpec{blCfg("dyn", dyn)},
		[]podSpec{{name: "duo", ns: "dyn1", qos: "Burstable", ctrs: []ctrSpec{{name: "c", t: tB500}, {name: "d", t: tB1500}}}, nsPod("b", "share", tB500, nil)},
		menu{stop: true, resyncTruth: true})
	// 4d. CPU classes on a machine small enough that a resize is refused for lack of free CPUs
	tight := []*blcfg.BalloonDef{
		{Name: "fast", Namespaces: []string{"fast"}, MinCpus: 1, MaxCpus: 6, MaxBalloons: 1, CpuClass: "turbo"},
		{Name: "slow", Namespaces: []string{"slow"}, MaxBalloons: 1, CpuClass: "eco"},
	}
	add("bl/classes-refused-resize", machine8(), []cfgSpec{blCfg("tight", tight, blIdleClass("idle"))},
		[]podSpec{nsPod("a", "fast", tG2, nil), nsPod("b", "slow", tG4, nil), nsPod("c", "fast", tG3, nil)}, menu{stop: true, remove: true})
	// 4e. allocator options the other configurations leave at their defaults: topology balancing, spreading over physical
	// cores, memory types, allocator priority, isolated CPUs preferred (coverage.sh: the corresponding CPU-tree code never ran)
	opts := []*blcfg.BalloonDef{
		{Name: "bal", Namespaces: []string{"bal"}, MinCpus: 1, MaxCpus: 4, PreferNewBalloons: true, AllocatorTopologyBalancing: bptr(true), ShareIdleCpusInSame: blcfg.CPUTopologyLevelNuma},
		{Name: "spread", Namespaces: []string{"spread"}, MinCpus: 2, MaxCpus: 4, PreferSpreadOnPhysicalCores: bptr(true), MemoryTypes: []string{"dram"}, AllocatorPriority: "high"},
		{Name: "iso", Namespaces: []string{"iso"}, MaxCpus: 2, PreferIsolCpus: true},
	}
	add("bl/allocator-options", machine16iso(), []cfgSpec{blCfg("opts", opts, func(c *cfgapi.BalloonsPolicy) { c.Spec.Config.AllocatorTopologyBalancing = true })},
		[]podSpec{nsPod("a", "bal", tG2, nil), nsPod("b", "bal", tG1, nil), nsPod("c", "spread", tG3, nil), nsPod("d", "iso", tG1, nil)}, lm)
	// 4f. containers with devices that have NUMA locality: the CPU tree allocator follows their topology hints
	b16dev := machine16()
	b16dev.Name += "+devices"
	b16dev.Devices = []sysgen.Device{{Major: 240, Minor: 0, Node: 3, CPUs: "6-7,14-15"}, {Major: 240, Minor: 1, Node: 0, CPUs: "0-1,8-9"}}
	devBl := []*blcfg.BalloonDef{{Name: "dev", Namespaces: []string{"dev"}, MinCpus: 1, MaxCpus: 4, PreferNewBalloons: true, ShareIdleCpusInSame: blcfg.CPUTopologyLevelNuma}}
	add("bl/device-hints", b16dev, []cfgSpec{blCfg("dev", devBl)},
		[]podSpec{nsPod("a", "dev", &tmpl{name: "G1dev3", cpuReq: 1000, cpuLim: 1000, memLim: 100 * miB, dev: [2]int64{240, 0}}, nil),
			nsPod("b", "dev", &tmpl{name: "G2dev0", cpuReq: 2000, cpuLim: 2000, memLim: 100 * miB, dev: [2]int64{240, 1}}, nil), nsPod("c", "dev", tG1, nil)}, lm)
	// 4g. requests a brand-new balloon can never hold: bigger than the type's maxCPUs, or bigger than what is idle
	tG6 := &tmpl{name: "G6", cpuReq: 6000, cpuLim: 6000, memLim: 100 * miB}
	capped := []*blcfg.BalloonDef{
		{Name: "capped", Namespaces: []string{"capped"}, MinCpus: 2, MaxCpus: 4},
		{Name: "roomy", Namespaces: []string{"roomy"}, MinCpus: 2, MaxCpus: 6, PreferNewBalloons: true},
	}
	add("bl/failed-new-balloon", machine16(), []cfgSpec{blCfg("capped", capped)},
		[]podSpec{nsPod("a", "capped", tG2, nil), nsPod("b", "capped", tG6, nil), nsPod("c", "roomy", tG1, nil), nsPod("d", "roomy", tG6, nil)}, menu{stop: true, remove: true})
	// 5. several balloons with hidden hyperthreads that share idle CPUs: one event re-pins more than one balloon
	noht := []*blcfg.BalloonDef{
		{Name: "noht", Namespaces: []string{"noht"}, MinCpus: 1, MaxCpus: 4, PreferNewBalloons: true, HideHyperthreads: bptr(true), ShareIdleCpusInSame: blcfg.CPUTopologyLevelPackage},
	}
	add("bl/noht-x3-share-package", machine16(), []cfgSpec{blCfg("noht", noht)},
		[]podSpec{nsPod("a", "noht", tG2, nil), nsPod("b", "noht", tG2, nil), nsPod("c", "noht", tG2, nil)}, lm)
	// 6. spreading pods over a bounded number of balloons, with a load class
	spread := []*blcfg.BalloonDef{
		{Name: "spread", Namespaces: []string{"sp"}, MinCpus: 1, MaxCpus: 3, MaxBalloons: 2, PreferSpreadingPods: true, Loads: []string{"l2"}, ShareIdleCpusInSame: blcfg.CPUTopologyLevelNuma},
	}
	add("bl/spread-loads", machine16(), []cfgSpec{blCfg("spread", spread, func(c *cfgapi.BalloonsPolicy) {
		c.Spec.Config.LoadClasses = []blcfg.LoadClass{{Name: "l2", Level: blcfg.CPUTopologyLevelCore}}
	})}, []podSpec{nsPod("a", "sp", tG1, nil), nsPod("b", "sp", tG1, nil), nsPod("c", "sp", tB500, nil)}, lm)
	if thorough {
		// 7. isolated CPUs present, groupBy, single socket
		grp := []*blcfg.BalloonDef{
			{Name: "grp", Namespaces: []string{"*"}, GroupBy: "${pod/labels/app}", MaxCpus: 3, ShareIdleCpusInSame: blcfg.CPUTopologyLevelSystem},
		}
		s := add("bl/iso-groupby", machine16iso(), []cfgSpec{blCfg("grp", grp)},
			[]podSpec{nsPod("a", "x", tG1, nil), nsPod("b", "x", tG1, nil), nsPod("c", "y", tB500, nil)}, lm)
		s.pods[0].labels = map[string]string{"app": "db"}
		s.pods[1].labels = map[string]string{"app": "web"}
		s.pods[2].labels = map[string]string{"app": "db"}
		add("bl/8cpu-dyn", machine8(), []cfgSpec{blCfg("dyn", dyn)},
			[]podSpec{nsPod("a", "dyn1", tG2, nil), nsPod("b", "dyn2", tG2, nil), nsPod("c", "share", tB500, nil), nsPod("d", "dyn1", tG1, nil)}, lm)
	}
	return out
}

// ---------------------------------------------------------------------------
// C04: memory-heavy scenarios on several NUMA layouts (nodes have 4 GiB unless stated)

var (
	tM3G   = &tmpl{name: "M3G", cpuReq: 500, cpuLim: 500, memLim: 3 * giB}
	tM2G   = &tmpl{name: "M2G", cpuReq: 500, cpuLim: 500, memLim: 2 * giB}
	tM5G   = &tmpl{name: "M5G", cpuReq: 500, cpuLim: 500, memLim: 5 * giB}
	tBM3G  = &tmpl{name: "BM3G", cpuReq: 300, cpuLim: 1000, memLim: 3 * giB, oomAdj: 955} // ~2.9 GiB request
	tBM6G  = &tmpl{name: "BM6G", cpuReq: 300, cpuLim: 1000, memLim: 6 * giB, oomAdj: 910} // ~5.8 GiB request
	tG1M1G = &tmpl{name: "G1M1G", cpuReq: 1000, cpuLim: 1000, memLim: 1 * giB}
	tG7M3G = &tmpl{name: "G7M3G", cpuReq: 7000, cpuLim: 7000, memLim: 3 * giB}
)

func machinePMEM() *sysgen.Spec {
	return &sysgen.Spec{Name: "1s2n2c2t+2pmem", Packages: 1, NodesPerDie: 2, CoresPerNode: 2, Threads: 2,
		Extras: []sysgen.Extra{{MemKB: 8 << 20, CloseTo: []int{0}}, {MemKB: 8 << 20, CloseTo: []int{1}}}}
}

func machineHBM() *sysgen.Spec {
	return &sysgen.Spec{Name: "1s2n2c2t+hbm", Packages: 1, NodesPerDie: 2, CoresPerNode: 2, Threads: 2,
		Extras: []sysgen.Extra{{MemKB: 1 << 20, CloseTo: []int{0, 1}}}}
}

func machineMovable() *sysgen.Spec {
	return &sysgen.Spec{Name: "2s1n2c2t-movable", Packages: 2, NodesPerDie: 1, CoresPerNode: 2, Threads: 2,
		MovableNodes: []int{1}, NodeMemKB: map[int]int64{0: 4 << 20, 1: 6 << 20}}
}

func machineAsym() *sysgen.Spec {
	return &sysgen.Spec{Name: "2s2n2c1t-asym", Packages: 2, NodesPerDie: 2, CoresPerNode: 2, Threads: 1,
		NodeMemKB: map[int]int64{0: 2 << 20, 1: 6 << 20, 2: 4 << 20, 3: 1 << 20}}
}

func c04Scenarios(thorough bool) []*scenario {
	var out []*scenario
	add := func(name, pol string, m *sysgen.Spec, cfgs []cfgSpec, ps []podSpec, mn menu) *scenario {
		s := &scenario{name: name, policy: pol, machine: m, cfgs: cfgs, pods: ps, menu: mn, depth: 5, maxInc: 1}
		if thorough {
			s.depth = 6
		}
		s.prefix = runAll(len(ps))
		out = append(out, s)
		return s
	}
	std := []cfgSpec{taCfg("rsv750m")}
	lm := menu{stop: true, remove: true}
	pmemAnn := map[string]string{annMemType: "dram,pmem"}
	add("ta/mem/2dram/M3G-M3G-BM3G", polTA, machine8(), std, pods(tM3G, tM3G, tBM3G), lm)
	add("ta/mem/2dram/M5G-M2G-BE", polTA, machine8(), std, pods(tM5G, tM2G, tBE), lm)
	// a request that is refused for CPU (more exclusive CPUs than the policy can slice) while its memory would have pushed
	// other containers to wider zones: nothing of it may stay behind in the allocator
	add("ta/mem/refused-for-cpu/BM3G-M3G-G7M3G-M2G", polTA, machine8(), std, pods(tBM3G, tM3G, tG7M3G, tM2G), lm)
	// a configuration update (even an identical one) re-registers every allocation with the memory allocator: later
	// admissions must still see what the older containers hold
	add("ta/mem/2dram+reconf/M3G-M3G-M2G", polTA, machine8(), std, pods(tM3G, tM3G, tM2G), menu{stop: true, reconf: []int{0}})
	add("ta/mem/pin-toggle/M3G-M3G-M2G", polTA, machine8(), []cfgSpec{taCfg("pin"), taCfg("pin-memory-off", taPin(true, false))}, pods(tM3G, tM3G, tM2G), menu{stop: true, reconf: []int{0, 1}})
	add("bl/mem/2dram+reconf/M3G-M3G-M2G", polBalloons, machine8(), []cfgSpec{blCfg("mem", []*blcfg.BalloonDef{{Name: "mem", Namespaces: []string{"mem"}, MinCpus: 1, MaxCpus: 2, PreferNewBalloons: true}})},
		[]podSpec{nsPod("a", "mem", tM3G, nil), nsPod("b", "mem", tM3G, nil), nsPod("c", "mem", tM2G, nil)}, menu{stop: true, reconf: []int{0}})
	add("ta/mem/4dram/M3G-M3G-M3G-BM6G", polTA, machine16(), std, pods(tM3G, tM3G, tM3G, tBM6G), lm)
	add("ta/mem/pmem/M3G-M5G(pmem)-BM6G(pmem)", polTA, machinePMEM(), std,
		[]podSpec{pod1("a", "default", "Guaranteed", tM3G, nil), pod1("b", "default", "Guaranteed", tM5G, pmemAnn), pod1("c", "default", "Burstable", tBM6G, pmemAnn)}, lm)
	// cold start: a container that starts on PMEM only and is re-allocated to PMEM+DRAM when its cold-start period ends,
	// next to containers that fill the DRAM it will be widened onto
	coldAnn := map[string]string{annMemType: "dram,pmem", annColdStart: "duration: 60s"}
	add("ta/mem/coldstart/M3G(cold)-M3G-BM3G(cold)", polTA, machinePMEM(), std,
		[]podSpec{pod1("a", "default", "Guaranteed", tM3G, coldAnn), pod1("b", "default", "Guaranteed", tM3G, nil), pod1("c", "default", "Burstable", tBM3G, coldAnn)},
		menu{start: true, coldDone: true, stop: true, remove: true})
	add("ta/mem/hbm/M3G-M2G-G1M1G", polTA, machineHBM(), std, pods(tM3G, tM2G, tG1M1G), lm)
	add("ta/mem/movable/M3G-M3G-BM3G", polTA, machineMovable(), std, pods(tM3G, tM3G, tBM3G), lm)
	add("ta/mem/asym/M3G-M2G-M5G", polTA, machineAsym(), std, pods(tM3G, tM2G, tM5G), lm)
	// balloons
	memBl := []*blcfg.BalloonDef{
		{Name: "mem", Namespaces: []string{"mem"}, MinCpus: 1, MaxCpus: 2, PreferNewBalloons: true},
		{Name: "two", Namespaces: []string{"two"}, MinCpus: 1, MaxBalloons: 1},
	}
	add("bl/mem/2dram/M3G-M3G-BM3G", polBalloons, machine8(), []cfgSpec{blCfg("mem", memBl)},
		[]podSpec{nsPod("a", "mem", tM3G, nil), nsPod("b", "mem", tM3G, nil), nsPod("c", "two", tBM3G, nil)}, lm)
	add("bl/mem/pmem/M5G-M3G(pmem)-BM6G", polBalloons, machinePMEM(), []cfgSpec{blCfg("mem", memBl)},
		[]podSpec{nsPod("a", "mem", tM5G, nil), nsPod("b", "mem", tM3G, pmemAnn), nsPod("c", "two", tBM6G, nil)}, lm)
	// one balloon that inflates from one NUMA node across both: the zones of the containers already in it must follow
	growBl := []*blcfg.BalloonDef{{Name: "grow", Namespaces: []string{"grow"}, MaxBalloons: 1}}
	add("bl/mem/grow-across-nodes/G2-G4-G1M1G", polBalloons, machine8(), []cfgSpec{blCfg("grow", growBl)},
		[]podSpec{nsPod("a", "grow", tG2, nil), nsPod("b", "grow", tG4, nil), nsPod("c", "grow", tG1M1G, nil)}, lm)
	// two containers in ONE balloon whose memory together exceeds the balloon's node: admitting the second widens the first
	add("bl/mem/same-balloon-widening/M2G-M3G-M2G", polBalloons, machine8(), []cfgSpec{blCfg("mem", memBl)},
		[]podSpec{nsPod("a", "two", tM2G, nil), nsPod("b", "two", tM3G, nil), nsPod("c", "mem", tM2G, nil)}, lm)
	if thorough {
		add("bl/mem/asym/M3G-M2G-M5G", polBalloons, machineAsym(), []cfgSpec{blCfg("mem", memBl)},
			[]podSpec{nsPod("a", "mem", tM3G, nil), nsPod("b", "two", tM2G, nil), nsPod("c", "two", tM5G, nil)}, lm)
	}
	return out
}

// ---------------------------------------------------------------------------
// C12: opted-out containers (created with a non-empty runtime cpuset no pool or balloon can produce) next to ordinary ones

func c12Scenarios(thorough bool) []*scenario {
	var out []*scenario
	add := func(name, pol string, m *sysgen.Spec, cfgs []cfgSpec, ps []podSpec, mn menu, ups []updSpec) *scenario {
		s := &scenario{name: name, policy: pol, machine: m, cfgs: cfgs, pods: ps, menu: mn, updates: ups, depth: 5, maxInc: 1}
		if thorough {
			s.depth = 6
		}
		s.prefix = runAll(len(ps))
		out = append(out, s)
		return s
	}
	std := []cfgSpec{taCfg("rsv750m")}
	ups := []updSpec{{label: "to-1500m", cpuReq: 1500, cpuLim: 1500, memLim: 100 * miB}}
	full := menu{stop: true, remove: true, sync: true, update: true}
	// 8-CPU machine variants of the pinned templates (cpus 0,7 span both NUMA nodes)
	bePin8 := &tmpl{name: "BEpin8", initCpus: "0,7", initMems: "0-1"}
	g2Pin8 := &tmpl{name: "G2pin8", cpuReq: 2000, cpuLim: 2000, memLim: 100 * miB, initCpus: "0,7", initMems: "0-1"}
	m3Pin8 := &tmpl{name: "M3Gpin8", cpuReq: 500, cpuLim: 500, memLim: 3 * giB, initCpus: "0,7", initMems: "0"}

	add("ta/optout/cpu-pod-level", polTA, machine16(), []cfgSpec{taCfg("rsv750m"), taCfg("rsv2", taReserved("cpuset:0,8"))},
		[]podSpec{pod1("p", "default", "Guaranteed", tG2pin, map[string]string{annPreserveCPU + "/pod": "true"}), pod1("a", "default", "Guaranteed", tG2, nil), pod1("b", "default", "Burstable", tB500, nil)},
		menu{stop: true, remove: true, sync: true, reconf: []int{0, 1}}, nil)
	// opt-outs must survive a plugin restart (the grants come back from the cache)
	add("ta/optout/restart/cpu+mem", polTA, machine8(), std,
		[]podSpec{pod1("p", "default", "Guaranteed", g2Pin8, map[string]string{annPreserveCPU: "true"}), pod1("q", "default", "Guaranteed", m3Pin8, map[string]string{annPreserveMem + "/pod": "true"}), pod1("a", "default", "Burstable", tB500, nil)},
		menu{stop: true, restart: true}, nil)
	add("ta/optout/cpu-container-level+update", polTA, machine16(), std,
		[]podSpec{pod1("p", "default", "Burstable", tB5pin, map[string]string{annPreserveCPU + "/container.c": "true"}), pod1("a", "default", "Guaranteed", tG2, nil), pod1("b", "default", "BestEffort", tBE, nil)},
		full, ups)
	add("ta/optout/mem-bare+widening", polTA, machine8(), std,
		[]podSpec{pod1("p", "default", "Guaranteed", m3Pin8, map[string]string{annPreserveMem: "true"}), pod1("a", "default", "Guaranteed", tM3G, nil), pod1("b", "default", "Guaranteed", tM3G, nil)},
		menu{stop: true, remove: true, sync: true, restart: true}, nil)
	bm3Pin8 := &tmpl{name: "BM3Gpin8", cpuReq: 300, cpuLim: 1000, memLim: 3 * giB, initCpus: "0,7", initMems: "0", oomAdj: 955} // oom_score_adj 955 of 64 GiB: a ~2.9 GiB memory request
	add("ta/optout/mem-burstable+widening", polTA, machine8(), std,
		[]podSpec{pod1("p", "default", "Burstable", bm3Pin8, map[string]string{annPreserveMem + "/pod": "true"}), pod1("a", "default", "Guaranteed", tM3G, nil), pod1("b", "default", "Guaranteed", tM2G, nil)},
		menu{stop: true, remove: true, sync: true}, nil)
	add("ta/optout/both+BE", polTA, machine8(), std,
		[]podSpec{pod1("p", "default", "BestEffort", bePin8, map[string]string{annPreserveCPU: "true", annPreserveMem + "/pod": "true"}), pod1("a", "default", "Guaranteed", tG2, nil), pod1("b", "default", "Guaranteed", tM3G, nil)},
		menu{stop: true, remove: true, sync: true}, nil)
	add("ta/optout/pinCPU-off", polTA, machine8(), []cfgSpec{taCfg("nocpu", taPin(false, true)), taCfg("pin", taPin(true, true))},
		[]podSpec{pod1("p", "default", "Guaranteed", g2Pin8, nil), pod1("a", "default", "Guaranteed", tM3G, nil), pod1("b", "default", "Burstable", tB500, nil)},
		menu{stop: true, remove: true, reconf: []int{0}}, nil)
	// pinning is off; an update that would switch it on is refused (reserved CPUs outside the available set): still off
	add("ta/optout/pin-off+refused-pin-on", polTA, machine8(),
		[]cfgSpec{taCfg("nopin", taPin(false, false)), taCfg("pin-on-but-invalid", taPin(true, true), taAvailable("cpuset:4-7"), taReserved("cpuset:0"))},
		[]podSpec{pod1("p", "default", "Guaranteed", g2Pin8, nil), pod1("a", "default", "Guaranteed", tG1, nil), pod1("b", "default", "Burstable", tB500, nil)},
		menu{stop: true, reconf: []int{0, 1}}, nil)
	add("ta/optout/pinMemory-off", polTA, machine8(), []cfgSpec{taCfg("nomem", taPin(true, false))},
		[]podSpec{pod1("p", "default", "Guaranteed", m3Pin8, nil), pod1("a", "default", "Guaranteed", tM3G, nil), pod1("b", "default", "Guaranteed", tM3G, nil)},
		menu{stop: true, remove: true, sync: true, reconf: []int{0}}, nil)
	// an opted-out container that also asks for a cold start: the end of the cold-start period re-allocates memory
	m3PinP := &tmpl{name: "M3GpinP", cpuReq: 500, cpuLim: 500, memLim: 3 * giB, initCpus: "0,7", initMems: "1"}
	add("ta/optout/mem+coldstart", polTA, machinePMEM(), std,
		[]podSpec{pod1("p", "default", "Guaranteed", m3PinP, map[string]string{annPreserveMem + "/pod": "true", annMemType: "dram,pmem", annColdStart: "duration: 60s"}),
			pod1("a", "default", "Guaranteed", tM3G, map[string]string{annMemType: "dram,pmem", annColdStart: "duration: 60s"}), pod1("b", "default", "Guaranteed", tM3G, nil)},
		menu{start: true, coldDone: true, stop: true, remove: true}, nil)
	// balloons
	no := false
	yes := true
	defs := []*blcfg.BalloonDef{
		{Name: "nomem", Namespaces: []string{"nomem"}, MinCpus: 1, PinMemory: &no, ShareIdleCpusInSame: blcfg.CPUTopologyLevelSystem},
		{Name: "mem", Namespaces: []string{"mem"}, MinCpus: 1, MaxCpus: 2, PreferNewBalloons: true, ShareIdleCpusInSame: blcfg.CPUTopologyLevelSystem},
	}
	preserve := func(c *cfgapi.BalloonsPolicy) {
		c.Spec.Config.Preserve = &blcfg.ContainerMatchConfig{MatchExpressions: []resmgrapi.Expression{{Key: "pod/name", Op: resmgrapi.Equals, Values: []string{"p"}}}}
	}
	add("bl/optout/preserve-rule", polBalloons, machine8(), []cfgSpec{blCfg("pres", defs, preserve)},
		[]podSpec{nsPod("p", "mem", g2Pin8, nil), nsPod("a", "mem", tG2, nil), nsPod("b", "mem", tM3G, nil)}, menu{stop: true, remove: true, sync: true, reconf: []int{0}}, nil)
	// the preserve rule arrives by a configuration update that changes nothing else, while the matching container already
	// sits in a balloon that other containers keep inflating and deflating
	grow := []*blcfg.BalloonDef{{Name: "grow", Namespaces: []string{"grow"}, MinCpus: 1, MaxBalloons: 1, ShareIdleCpusInSame: blcfg.CPUTopologyLevelSystem}}
	add("bl/optout/preserve-rule-added-later", polBalloons, machine8(), []cfgSpec{blCfg("nopres", grow), blCfg("pres", grow, preserve)},
		[]podSpec{nsPod("p", "grow", g2Pin8, nil), nsPod("a", "grow", tG2, nil), nsPod("b", "grow", tG1, nil)}, menu{stop: true, reconf: []int{0, 1}}, nil)
	add("bl/optout/type-pinMemory-off", polBalloons, machine8(), []cfgSpec{blCfg("nomem", defs)},
		[]podSpec{nsPod("p", "nomem", m3Pin8, nil), nsPod("a", "mem", tM3G, nil), nsPod("b", "mem", tM3G, nil)}, menu{stop: true, remove: true, sync: true}, nil)
	defs2 := []*blcfg.BalloonDef{
		{Name: "pinmem", Namespaces: []string{"pinmem"}, MinCpus: 1, PinMemory: &yes},
		{Name: "plain", Namespaces: []string{"plain"}, MinCpus: 1, MaxCpus: 2},
	}
	add("bl/optout/global-pinMemory-off", polBalloons, machine8(), []cfgSpec{blCfg("gnomem", defs2, blPin(true, false))},
		[]podSpec{nsPod("p", "plain", m3Pin8, nil), nsPod("a", "pinmem", tM3G, nil), nsPod("b", "pinmem", tM3G, nil)}, menu{stop: true, remove: true, sync: true}, nil)
	add("bl/optout/annotations", polBalloons, machine8(), []cfgSpec{blCfg("ann", defs)},
		[]podSpec{nsPod("p", "mem", m3Pin8, map[string]string{annPreserveMem + "/container.c": "true"}), nsPod("q", "mem", g2Pin8, map[string]string{annPreserveCPU + "/pod": "true"}), nsPod("a", "mem", tM3G, nil), nsPod("b", "mem", tM3G, nil)},
		menu{stop: true, remove: true}, nil)
	if thorough {
		add("bl/optout/pinCPU-off", polBalloons, machine8(), []cfgSpec{blCfg("nocpu", defs, blPin(false, true))},
			[]podSpec{nsPod("p", "mem", g2Pin8, nil), nsPod("a", "mem", tG2, nil), nsPod("b", "nomem", tM3G, nil)}, menu{stop: true, remove: true, sync: true}, nil)
	}
	return out
}

// ---------------------------------------------------------------------------
// C13: configuration updates (identical, rejected of every kind, valid changes) at every request boundary

func c13Scenarios(thorough bool) []*scenario {
	var out []*scenario
	add := func(name, pol string, m *sysgen.Spec, cfgs []cfgSpec, ps []podSpec, mn menu) *scenario {
		s := &scenario{name: name, policy: pol, machine: m, cfgs: cfgs, pods: ps, menu: mn, depth: 4, maxInc: 1}
		if thorough {
			s.depth = 5
		}
		s.prefix = runAll(len(ps))
		for i := range cfgs {
			s.menu.reconf = append(s.menu.reconf, i)
		}
		out = append(out, s)
		return s
	}
	ks := pod1("ks", "kube-system", "Burstable", tB200, nil)
	taCfgs := []cfgSpec{
		taCfg("base"),
		taCfg("reserved-cpuset", taReserved("cpuset:0,8")),
		taCfg("available-shrunk", taAvailable("cpuset:0-11")),
		taCfg("bad-available-cpuset", taAvailable("cpuset:0-x")),
		taCfg("reserved-outside-available", taAvailable("cpuset:0-11"), taReserved("cpuset:15")),
		taCfg("no-reservation", taNoReserved()),
		taCfg("unsatisfiable-capacity", taAvailable("cpuset:0-1")),
		taCfg("available-moved-reserved-quantity", taAvailable("cpuset:4-15")),
	}
	add("ta/reconf/G2-B500-KS", polTA, machine16(), taCfgs, append(pods(tG2, tB500), ks), menu{stop: true})
	add("ta/reconf/G4-G1500-BE", polTA, machine16(), taCfgs, pods(tG4, tG1500, tBE), menu{stop: true})
	// the reservation is a quantity; accepted updates move the available set off the CPU that was picked for it, with a
	// kube-system container that has no CPU request of its own (it lives on the reserved CPUs alone)
	add("ta/reconf/reserved-quantity/KSBE-B500-G1", polTA, machine16(),
		[]cfgSpec{taCfg("base"), taCfg("available-4-15", taAvailable("cpuset:4-15")), taCfg("available-8-15+rsv2", taAvailable("cpuset:8-15"), taReserved("2"))},
		[]podSpec{pod1("ks", "kube-system", "BestEffort", tBE, nil), pods(tB500)[0], pod1("g", "default", "Guaranteed", tG1, nil)}, menu{stop: true})
	taCfgs2 := []cfgSpec{
		taCfg("base"),
		taCfg("prefer-shared", taPreferShared(true)),
		taCfg("pin-off", taPin(false, false)),
		taCfg("reserved-ns", taReservedNS("kube-*", "mon*")),
		taCfg("bad-reserved-cpuset", taReserved("cpuset:a-b")),
		taCfg("available-as-quantity", taAvailable("4")),
	}
	add("ta/reconf/options/G2-M3G-KS", polTA, machine8(), taCfgs2, append(pods(tG2, tM3G), ks), menu{stop: true, remove: true})
	// options that register state outside the policy object (implicit pod/namespace affinities live in the cache), turned on by
	// an update that is accepted and by one that is rejected late (after the option took effect); a two-container pod and
	// a second pod in the same namespace make the affinities matter for later placements
	taCfgs3 := []cfgSpec{
		taCfg("base"),
		taCfg("colocate-pods", func(c *cfgapi.TopologyAwarePolicy) { c.Spec.Config.ColocatePods = true }),
		taCfg("colocate-pods+unsatisfiable", taAvailable("cpuset:0-1"), func(c *cfgapi.TopologyAwarePolicy) { c.Spec.Config.ColocatePods = true }),
		taCfg("colocate-namespaces+unsatisfiable", taAvailable("cpuset:0-1"), func(c *cfgapi.TopologyAwarePolicy) { c.Spec.Config.ColocateNamespaces = true }),
	}
	two := podSpec{name: "duo", ns: "default", qos: "Burstable", ctrs: []ctrSpec{{name: "c", t: tG2}, {name: "d", t: tB500}}}
	add("ta/reconf/colocate/duo(G2+B500)-B500", polTA, machine16(), taCfgs3, []podSpec{two, pods(tB500)[0]}, menu{stop: true})
	// balloons
	base := []*blcfg.BalloonDef{
		{Name: "a", Namespaces: []string{"a"}, MinCpus: 1, MaxCpus: 4, MinBalloons: 1, ShareIdleCpusInSame: blcfg.CPUTopologyLevelSystem},
		{Name: "b", Namespaces: []string{"b"}, MaxCpus: 2, PreferNewBalloons: true},
	}
	grown := []*blcfg.BalloonDef{
		{Name: "a", Namespaces: []string{"a"}, MinCpus: 2, MaxCpus: 4, MinBalloons: 1, ShareIdleCpusInSame: blcfg.CPUTopologyLevelSystem},
		{Name: "b", Namespaces: []string{"b"}, MaxCpus: 2, PreferNewBalloons: true},
	}
	dup := []*blcfg.BalloonDef{{Name: "a", Namespaces: []string{"a"}}, {Name: "a", Namespaces: []string{"b"}}}
	illBounded := []*blcfg.BalloonDef{{Name: "a", Namespaces: []string{"a"}, MinCpus: 3, MaxCpus: 2}, {Name: "b", Namespaces: []string{"b"}}}
	illInst := []*blcfg.BalloonDef{{Name: "a", Namespaces: []string{"a"}, MinBalloons: 3, MaxBalloons: 2}, {Name: "b", Namespaces: []string{"b"}}}
	noLoad := []*blcfg.BalloonDef{{Name: "a", Namespaces: []string{"a"}, Loads: []string{"membw"}}, {Name: "b", Namespaces: []string{"b"}}}
	tooBig := []*blcfg.BalloonDef{{Name: "a", Namespaces: []string{"a"}, MinCpus: 6, MinBalloons: 3}, {Name: "b", Namespaces: []string{"b"}}}
	blCfgs := []cfgSpec{
		blCfg("base", base),
		blCfg("minCPUs-grown", grown),
		blCfg("duplicate-types", dup),
		blCfg("minCPUs>maxCPUs", illBounded),
		blCfg("minBalloons>maxBalloons", illInst),
		blCfg("undefined-load-class", noLoad),
		blCfg("unsatisfiable-capacity", tooBig),
		blCfg("reserved-outside-available", base, blAvailable("cpuset:0-11"), blReserved("cpuset:15")),
		blCfg("bad-available-cpuset", base, blAvailable("cpuset:0-x")),
	}
	add("bl/reconf/G2-B500-KS", polBalloons, machine16(), blCfgs,
		[]podSpec{nsPod("x", "a", tG2, nil), nsPod("y", "b", tB500, nil), nsPod("ks", "kube-system", tB200, nil)}, menu{stop: true})
	// containers that name their balloon type by annotation, next to updates that are refused by validation and carry
	// OTHER type names than the configuration in force (one that exists only there, one that is missing there)
	otherTypes := []*blcfg.BalloonDef{{Name: "a", Namespaces: []string{"a"}, MinCpus: 3, MaxCpus: 2}, {Name: "gamma", MinCpus: 1}}
	otherTypesLoad := []*blcfg.BalloonDef{{Name: "gamma", MinCpus: 1, Loads: []string{"membw"}}, {Name: "b", Namespaces: []string{"b"}, MaxCpus: 1}}
	add("bl/reconf/annotated/b-gamma-a", polBalloons, machine16(),
		[]cfgSpec{blCfg("base", base), blCfg("other-types:minCPUs>maxCPUs", otherTypes), blCfg("other-types:undefined-load-class", otherTypesLoad)},
		[]podSpec{nsPod("u", "default", tG1, map[string]string{annBalloon: "b"}), nsPod("w", "default", tB500, map[string]string{annBalloon: "gamma"}), nsPod("x", "a", tG1, nil)}, menu{stop: true})
	// load classes in force, next to updates that validation refuses and whose load classes differ
	loadsBase := []*blcfg.BalloonDef{{Name: "a", Namespaces: []string{"a"}, MinCpus: 1, MaxCpus: 2, PreferNewBalloons: true, Loads: []string{"l2"}}, {Name: "b", Namespaces: []string{"b"}, MaxCpus: 2}}
	loadsDup := []*blcfg.BalloonDef{{Name: "a", Namespaces: []string{"a"}, Loads: []string{"l2"}}, {Name: "a", Namespaces: []string{"b"}}}
	withLoads := func(lcs ...blcfg.LoadClass) blOpt {
		return func(c *cfgapi.BalloonsPolicy) { c.Spec.Config.LoadClasses = lcs }
	}
	add("bl/reconf/loads/G1-G1-G1", polBalloons, machine16(),
		[]cfgSpec{blCfg("base", loadsBase, withLoads(blcfg.LoadClass{Name: "l2", Level: blcfg.CPUTopologyLevelCore})),
			blCfg("duplicate-types+load-relaxed", loadsDup, withLoads(blcfg.LoadClass{Name: "l2", Level: blcfg.CPUTopologyLevelCore, OverloadsLevelInBalloon: true})),
			blCfg("undefined-load-class+none-defined", noLoad)},
		[]podSpec{nsPod("x", "a", tG1, nil), nsPod("y", "a", tG1, nil), nsPod("z", "a", tG2, nil)}, menu{stop: true})
	blCfgs2 := []cfgSpec{
		blCfg("base", base, blIdleClass("idle")),
		blCfg("classes-only", base, blIdleClass("lazy")),
		blCfg("available-shrunk", base, blAvailable("cpuset:0-11"), blIdleClass("idle")),
		blCfg("pin-off", base, blPin(false, false), blIdleClass("idle")),
	}
	add("bl/reconf/options/G1-G1-BE", polBalloons, machine16(), blCfgs2,
		[]podSpec{nsPod("x", "a", tG1, nil), nsPod("y", "b", tG1, nil), nsPod("z", "default", tBE, nil)}, menu{stop: true, remove: true})
	return out
}

// ---------------------------------------------------------------------------
// C11: restart on a previously saved cache (request boundaries and mid-request saves) x runtime truth at restart

func c11Scenarios(thorough bool) []*scenario {
	var out []*scenario
	add := func(name, pol string, m *sysgen.Spec, cfgs []cfgSpec, ps []podSpec, mn menu) *scenario {
		s := &scenario{name: name, policy: pol, machine: m, cfgs: cfgs, pods: ps, menu: mn, depth: 4, maxInc: 1}
		if thorough {
			s.depth = 5
		}
		s.prefix = runAll(len(ps))
		out = append(out, s)
		return s
	}
	std := []cfgSpec{taCfg("rsv750m")}
	ks := pod1("ks", "kube-system", "Burstable", tB200, nil)
	rt := menu{start: true, stop: true, remove: true, restart: true, restartTruth: true}
	cut := menu{start: true, stop: true, restart: true, restartCuts: true}
	add("ta/restart/truth/G2-B500-KS", polTA, machine16(), std, append(pods(tG2, tB500), ks), rt)
	add("ta/restart/truth/G1500-M3G-BE", polTA, machine8(), std, pods(tG1500, tM3G, tBE), rt)
	add("ta/restart/cuts/G2-B500-BE", polTA, machine16(), std, pods(tG2, tB500, tBE), cut)
	add("ta/restart/cuts/G1-M3G", polTA, machine8(), std, pods(tG1, tM3G), cut)
	defs := []*blcfg.BalloonDef{
		{Name: "dyn", Namespaces: []string{"dyn*"}, MinCpus: 1, MaxCpus: 4, PreferNewBalloons: true, ShareIdleCpusInSame: blcfg.CPUTopologyLevelSystem},
		{Name: "share", Namespaces: []string{"share"}, MinBalloons: 1, MinCpus: 1, ShareIdleCpusInSame: blcfg.CPUTopologyLevelSystem},
	}
	blp := []podSpec{nsPod("a", "dyn1", tG2, nil), nsPod("b", "dyn1", tB500, nil), nsPod("c", "share", tM3G, nil)}
	// a same-named container created while the old one is still alive (pod re-created under the same name):
	// the plugin releases the old instance, the runtime still reports it running after the restart
	add("ta/restart/with-reserved/KS-B500-G2", polTA, machine16(), std, append([]podSpec{pod1("ks", "kube-system", "BestEffort", tBE, nil)}, pods(tB500, tG2)...), menu{start: true, stop: true, restart: true})
	// the order in which Synchronize re-admits containers is the policy's own: a shared Guaranteed container with much memory,
	// an exclusive one with little, a reserved one without requests
	tG500M2G := &tmpl{name: "G500M2G", cpuReq: 500, cpuLim: 500, memLim: 2 * giB}
	add("ta/restart/sync-order/KSBE-G500M2G-G2", polTA, machine8(), std,
		[]podSpec{pod1("ks", "kube-system", "BestEffort", tBE, nil), pod1("web", "default", "Guaranteed", tG500M2G, nil), pod1("db", "default", "Guaranteed", tG2, nil)}, menu{start: true, stop: true, restart: true})
	re := add("ta/restart/recreate-live/G2-B500", polTA, machine16(), std, pods(tG2, tB500), menu{start: true, stop: true, restart: true, recreateLive: true})
	re.maxInc = 2
	rb := add("bl/restart/recreate-live", polBalloons, machine8(), []cfgSpec{blCfg("dyn", defs)}, blp[:2], menu{start: true, stop: true, restart: true, recreateLive: true})
	// one extra live incarnation only: on this 8-CPU machine three 2-CPU incarnations plus the second container exceed what
	// the machine can hold, and a runtime truth the plugin could never have admitted is not one the property speaks about
	rb.maxInc = 1
	add("bl/restart/truth", polBalloons, machine8(), []cfgSpec{blCfg("dyn", defs)}, blp, rt)
	add("bl/restart/cuts", polBalloons, machine8(), []cfgSpec{blCfg("dyn", defs)}, blp, cut)
	return out
}

// ---------------------------------------------------------------------------
// C14

func c14Scenarios(thorough bool) []*scenario {
	var out []*scenario
	ups := []updSpec{{label: "to-1500m", cpuReq: 1500, cpuLim: 1500, memLim: 100 * miB}}
	mn := menu{start: true, update: true, stop: true, remove: true, sync: true, podRun: true, podStop: true, podRemove: true, illFormed: true, ghost: true, reconf: []int{0}}
	depth := 3
	if thorough {
		depth = 4
	}
	ks := pod1("ks", "kube-system", "Burstable", tB200, nil)
	s1 := &scenario{name: "ta/c14/known-unknown-removed", policy: polTA, machine: machine8(), cfgs: []cfgSpec{taCfg("rsv750m")},
		pods: append(pods(tG2, tB500), ks), menu: mn, updates: ups, depth: depth, maxInc: 2}
	defs := []*blcfg.BalloonDef{{Name: "dyn", Namespaces: []string{"default"}, MinCpus: 1, MaxCpus: 4, PreferNewBalloons: true, ShareIdleCpusInSame: blcfg.CPUTopologyLevelSystem}}
	s2 := &scenario{name: "bl/c14/known-unknown-removed", policy: polBalloons, machine: machine8(), cfgs: []cfgSpec{blCfg("dyn", defs)},
		pods: append(pods(tG2, tB500), ks), menu: mn, updates: ups, depth: depth, maxInc: 2}
	// two containers in one pod: pod-level events hit several containers at once
	two := podSpec{name: "two", ns: "default", qos: "Burstable", ctrs: []ctrSpec{{name: "a", t: tB500}, {name: "b", t: tB200}}}
	s3 := &scenario{name: "ta/c14/two-container-pod", policy: polTA, machine: machine8(), cfgs: []cfgSpec{taCfg("rsv750m")},
		pods: []podSpec{two, pods(tG1)[0]}, menu: mn, updates: ups, depth: depth, maxInc: 1}
	s4 := &scenario{name: "bl/c14/two-container-pod", policy: polBalloons, machine: machine8(), cfgs: []cfgSpec{blCfg("dyn", defs)},
		pods: []podSpec{two, pods(tG1)[0]}, menu: mn, updates: ups, depth: depth, maxInc: 1}
	out = append(out, s1, s2, s3, s4)
	// containers whose creation is refused (too large for the machine / a balloon type that does not exist) and that carry
	// class annotations (the cache prepares their first adjustment while inserting them): events naming them afterwards,
	// including an update that repeats their resources
	ups2 := append([]updSpec{{label: "same", same: true}, {label: "absent", absent: true}}, ups...)
	cls := map[string]string{"rdtclass.resource-policy.nri.io": "gold", "blockioclass.resource-policy.nri.io/container.c": "slow"}
	huge := &tmpl{name: "G64", cpuReq: 64000, cpuLim: 64000, memLim: 100 * miB}
	s5 := &scenario{name: "ta/c14/refused-with-classes", policy: polTA, machine: machine8(), cfgs: []cfgSpec{taCfg("rsv750m")},
		pods: []podSpec{pod1("big", "default", "Guaranteed", huge, cls), pods(tB500)[0]}, menu: mn, updates: ups2, depth: depth, maxInc: 1}
	cls2 := map[string]string{"rdtclass.resource-policy.nri.io": "gold", annBalloon: "no-such-type"}
	s6 := &scenario{name: "bl/c14/refused-with-classes", policy: polBalloons, machine: machine8(), cfgs: []cfgSpec{blCfg("dyn", defs)},
		pods: []podSpec{pod1("odd", "default", "Burstable", tB500, cls2), pods(tB500)[0]}, menu: mn, updates: ups2, depth: depth, maxInc: 1}
	out = append(out, s5, s6)
	for _, s := range out {
		s.prefix = runAll(len(s.pods))
	}
	return out
}

func c14InputCases(thorough bool) []*scenario {
	ns := "resource-policy.nri.io"
	keys := []string{
		"rdtclass." + ns, "blockioclass." + ns, "toptierlimit." + ns, "topologyhints." + ns, "allow.topologyhints." + ns, "deny.topologyhints." + ns,
		"cpu.preserve." + ns, "memory.preserve." + ns, "memory-type." + ns, "prefer-isolated-cpus." + ns, "prefer-shared-cpus." + ns, "cold-start." + ns,
		"prefer-reserved-cpus." + ns, "prefer-cpu-priority." + ns, "hide-hyperthreads." + ns, "balloon.balloons." + ns,
	}
	big := string(make([]byte, 1<<20))
	values := []string{"", "true", "false", "0", "-1", "99999999999999999999999", "1.5", "not-a-bool", "[1,2", "{a: b", "null", "- null", "~", "key: [unterminated",
		`{"duration":"5s"}`, `{"duration":"-5s"}`, `{"duration": null}`, "duration: 99999h", "dram,pmem", "dram,,pmem", "hbm", "foo", "type: prefix\npaths: [/a, null]", "type: 7\npaths: x",
		"type: glob\npaths:\n- \"[\"", "high", "none", "reserved", "default", "nonexistent-balloon", "a\x00b", big}
	forms := []string{"/container.c", "/pod", ""}
	affValues := []string{"", "null", "c: [x]", "c:\n- null", "c:\n- null\n- match:\n    key: name\n    operator: Exists", "c:\n- match:\n    key: name\n    operator: Exists\n- null", "c: [~, {scope: null}]", "c:\n  - scope: null\n    match: null", "c:\n  - match:\n      key: name\n      operator: Bogus\n      values: [a]",
		"c:\n  - match:\n      key: name\n      operator: In\n      values: null\n    weight: 99999999999", "[1,2", "c: {a: b}", "{c: [{match: {key: 'pod/labels/x', operator: Exists}}]}",
		"c:\n  - scope:\n      key: tags/x\n      operator: Matches\n      values: [\"[\"]\n    match:\n      key: :,-::ns:\n      operator: Equals\n      values: [a]", big}
	var out []*scenario
	ups := []updSpec{{label: "to-1500m", cpuReq: 1500, cpuLim: 1500, memLim: 100 * miB}, {label: "same", same: true}, {label: "absent", absent: true}}
	defs := []*blcfg.BalloonDef{{Name: "dyn", Namespaces: []string{"default"}, MinCpus: 1, MaxCpus: 4, ShareIdleCpusInSame: blcfg.CPUTopologyLevelSystem}}
	mk := func(pol, name string, ann map[string]string, t *tmpl, qos string) {
		s := &scenario{name: name, policy: pol, machine: machine8(), pods: []podSpec{pod1("p", "default", qos, t, ann)}, updates: ups, maxInc: 1}
		if pol == polTA {
			s.cfgs = []cfgSpec{taCfg("rsv750m")}
		} else {
			s.cfgs = []cfgSpec{blCfg("dyn", defs)}
		}
		out = append(out, s)
	}
	for _, pol := range []string{polTA, polBalloons} {
		for _, k := range keys {
			for vi, v := range values {
				for _, f := range forms {
					mk(pol, fmt.Sprintf("%s/ann/%s%s/v%d", pol, k, f, vi), map[string]string{k + f: v}, tG2, "Guaranteed")
				}
			}
		}
		for _, k := range []string{ns + "/affinity", ns + "/anti-affinity"} {
			for vi, v := range affValues {
				mk(pol, fmt.Sprintf("%s/ann/%s/v%d", pol, k, vi), map[string]string{k: v}, tG2, "Guaranteed")
			}
		}
		for _, shape := range []string{"no-linux", "no-resources", "no-cpu", "no-memory", "no-oomadj", "no-period", "no-quota", "no-shares", "no-limit", "pod-no-linux"} {
			for _, base := range []*tmpl{tG2, tB500, tBE} {
				t := *base
				t.shape = shape
				t.name = base.name + "/" + shape
				mk(pol, fmt.Sprintf("%s/shape/%s", pol, t.name), nil, &t, qosOf(base))
				// the same shape on a container the policy leaves alone (nothing is ever filled in for it)
				mk(pol, fmt.Sprintf("%s/shape/%s+preserve", pol, t.name), map[string]string{"cpu.preserve." + ns: "true", "memory.preserve." + ns: "true"}, &t, qosOf(base))
			}
		}
	}
	return out
}

// ---------------------------------------------------------------------------
// C19: balloon-type selection

type c19Case struct {
	s     *scenario
	kind  string
	order []string
	want  string
}

func c19BalloonCases(thorough bool) []c19Case {
	user := map[string]*blcfg.BalloonDef{
		"byns":   {Name: "byns", Namespaces: []string{"team-*"}, MaxCpus: 2},
		"byexpr": {Name: "byexpr", MatchExpressions: []resmgrapi.Expression{{Key: "pod/labels/tier", Op: resmgrapi.Equals, Values: []string{"db"}}}, MaxCpus: 2},
		"catch":  {Name: "catch", Namespaces: []string{"*"}, MaxCpus: 2},
		"named":  {Name: "named", MaxCpus: 2},
	}
	builtin := map[string]*blcfg.BalloonDef{
		"reserved": {Name: "reserved", MaxCpus: 2},
		"default":  {Name: "default", MaxCpus: 4},
	}
	type kindSpec struct {
		name   string
		ns     string
		labels map[string]string
		ann    map[string]string
	}
	kinds := []kindSpec{
		{"kube-system", "kube-system", nil, nil},
		{"reserved-ns-glob", "monitoring", nil, nil},
		{"ns-glob", "team-a", nil, nil},
		{"expr", "other", map[string]string{"tier": "db"}, nil},
		{"ns+expr", "team-b", map[string]string{"tier": "db"}, nil},
		{"none", "other", nil, nil},
		{"annotated-bare", "team-a", nil, map[string]string{annBalloon: "named"}},
		{"annotated-pod", "kube-system", nil, map[string]string{annBalloon + "/pod": "named", annBalloon: "byns"}},
		{"annotated-container", "other", map[string]string{"tier": "db"}, map[string]string{annBalloon + "/container.c": "named", annBalloon + "/pod": "byns"}},
		{"annotated-other-container", "team-a", nil, map[string]string{annBalloon + "/container.zzz": "named"}},
		{"annotated-unknown", "team-a", nil, map[string]string{annBalloon: "no-such-type"}},
		{"annotated-builtin-default", "team-a", nil, map[string]string{annBalloon: "default"}},
	}
	var orders [][]string
	base := []string{"byns", "byexpr", "catch", "named"}
	perms := [][]int{{0, 1, 2, 3}, {2, 0, 1, 3}, {1, 0, 3, 2}, {3, 2, 1, 0}, {1, 2, 0, 3}, {0, 2, 1, 3}}
	for _, p := range perms {
		o := []string{}
		for _, i := range p {
			o = append(o, base[i])
		}
		orders = append(orders, o)
	}
	if thorough {
		orders = nil
		var rec func(cur []string, used [4]bool)
		rec = func(cur []string, used [4]bool) {
			if len(cur) == 4 {
				orders = append(orders, append([]string{}, cur...))
				return
			}
			for i := 0; i < 4; i++ {
				if !used[i] {
					used[i] = true
					rec(append(cur, base[i]), used)
					used[i] = false
				}
			}
		}
		rec(nil, [4]bool{})
	}
	// placements of explicitly defined built-in types: none, reserved last, default first
	placements := []string{"implicit", "reserved-last", "default-first"}
	var out []c19Case
	for _, order := range orders {
		for _, pl := range placements {
			full := append([]string{}, order...)
			switch pl {
			case "reserved-last":
				full = append(full, "reserved")
			case "default-first":
				full = append([]string{"default"}, full...)
			}
			var defs []*blcfg.BalloonDef
			for _, n := range full {
				if d, ok := user[n]; ok {
					defs = append(defs, d)
				} else {
					defs = append(defs, builtin[n])
				}
			}
			// effective order: implicit reserved is prepended, implicit default appended
			eff := append([]string{}, full...)
			if pl != "reserved-last" {
				eff = append([]string{"reserved"}, eff...)
			}
			if pl != "default-first" {
				eff = append(eff, "default")
			}
			for _, k := range kinds {
				want := ""
				// reference selection
				annv, annOK := "", false
				for _, key := range []string{annBalloon + "/container.c", annBalloon + "/pod", annBalloon} {
					if v, ok := k.ann[key]; ok {
						annv, annOK = v, true
						break
					}
				}
				switch {
				case annOK:
					want = "<error>"
					for _, n := range eff {
						if n == annv {
							want = n
						}
					}
				default:
					want = "default"
					for _, n := range eff {
						match := false
						switch n {
						case "byns":
							match = strings.HasPrefix(k.ns, "team-")
						case "byexpr":
							match = k.labels["tier"] == "db"
						case "catch":
							match = true
						case "reserved":
							match = k.ns == "kube-system" || strings.HasPrefix(k.ns, "monitor")
						}
						if match {
							want = n
							break
						}
					}
				}
				ps := podSpec{name: "p", ns: k.ns, qos: "Burstable", annotations: k.ann, labels: k.labels, ctrs: []ctrSpec{{name: "c", t: tB500}}}
				s := &scenario{name: fmt.Sprintf("bl/select/%s/%s/%s", strings.Join(order, ","), pl, k.name), policy: polBalloons, machine: machine8(),
					cfgs: []cfgSpec{blCfg("sel", defs, func(c *cfgapi.BalloonsPolicy) { c.Spec.Config.ReservedPoolNamespaces = []string{"monitor*"} })},
					pods: []podSpec{ps}, maxInc: 1}
				out = append(out, c19Case{s: s, kind: k.name, order: full, want: want})
			}
		}
	}
	return out
}

// ---------------------------------------------------------------------------
// C16: pool tree on a machine family x available/reserved configurations

func c16PoolCases(thorough bool) []*scenario {
	var out []*scenario
	coresL := []int{1, 2}
	for _, p := range []int{1, 2, 4} {
		for _, d := range []int{1, 2} {
			for _, n := range []int{1, 2} {
				for _, c := range coresL {
					for _, t := range []int{1, 2} {
						ncpu := p * d * n * c * t
						nnodes := p * d * n
						if ncpu < 2 || ncpu > 32 {
							continue
						}
						variants := []func(s *sysgen.Spec) bool{
							func(s *sysgen.Spec) bool { return true },
							func(s *sysgen.Spec) bool { s.Isolated = []int{ncpu - 1}; return ncpu > 2 },
							func(s *sysgen.Spec) bool { s.Offline = []int{ncpu - 1}; return ncpu > 2 },
							func(s *sysgen.Spec) bool {
								// every CPU but the first is kernel-isolated: reservations given as a quantity run out of ordinary CPUs
								for i := 1; i < ncpu; i++ {
									s.Isolated = append(s.Isolated, i)
								}
								return ncpu > 2
							},
							func(s *sysgen.Spec) bool {
								s.Extras = []sysgen.Extra{{MemKB: 16 << 20, CloseTo: []int{0}}}
								return true
							},
							func(s *sysgen.Spec) bool {
								if nnodes < 2 {
									return false
								}
								s.Extras = []sysgen.Extra{{MemKB: 16 << 20, CloseTo: []int{0}}, {MemKB: 16 << 20, CloseTo: []int{nnodes - 1}}, {MemKB: 1 << 20, CloseTo: []int{0, 1}}}
								return true
							},
							func(s *sysgen.Spec) bool {
								// a CPU-less node equally close to DRAM nodes whose ids are not adjacent (a farther one lies between)
								if nnodes < 3 {
									return false
								}
								s.Extras = []sysgen.Extra{{MemKB: 16 << 20, CloseTo: []int{0, 2}}, {MemKB: 16 << 20, CloseTo: []int{0, nnodes - 1}}}
								return true
							},
							func(s *sysgen.Spec) bool {
								if nnodes < 2 {
									return false
								}
								s.NodeMemKB = map[int]int64{1: 0}
								return true
							},
							func(s *sysgen.Spec) bool {
								if nnodes < 2 {
									return false
								}
								s.NodeMemKB = map[int]int64{nnodes - 1: 0}
								s.Extras = []sysgen.Extra{{MemKB: 16 << 20, CloseTo: []int{nnodes - 1}}}
								return true
							},
						}
						for vi, vf := range variants {
							m := &sysgen.Spec{Packages: p, Dies: d, NodesPerDie: n, CoresPerNode: c, Threads: t}
							if !vf(m) {
								continue
							}
							m.Name = fmt.Sprintf("p%dd%dn%dc%dt%d/v%d", p, d, n, c, t, vi)
							cfgs := []cfgSpec{
								taCfg("rsv750m"),
								taCfg("rsv-cpuset0", taReserved("cpuset:0")),
								taCfg(fmt.Sprintf("avail-0-%d", ncpu-2), taAvailable(fmt.Sprintf("cpuset:0-%d", ncpu-2)), taReserved("cpuset:0")),
								taCfg(fmt.Sprintf("avail-1-%d", ncpu-1), taAvailable(fmt.Sprintf("cpuset:1-%d", ncpu-1)), taReserved("1500m")),
							}
							if thorough {
								cfgs = append(cfgs, taCfg("avail-half", taAvailable(fmt.Sprintf("cpuset:0-%d", ncpu/2)), taReserved("cpuset:0")))
								rsvIsolated := false
								for _, ic := range m.Isolated {
									if ic == ncpu-2 {
										rsvIsolated = true // the property excludes a reserved cpuset that is itself kernel-isolated (that case is C01's, see ta/iso-reserved)
									}
								}
								if !rsvIsolated {
									cfgs = append(cfgs, taCfg("rsv-last", taReserved(fmt.Sprintf("cpuset:%d", ncpu-2))))
								}
							}
							for _, cfg := range cfgs {
								out = append(out, &scenario{name: m.Name + "/" + cfg.label, policy: polTA, machine: m, cfgs: []cfgSpec{cfg}, maxInc: 1})
							}
							// the same configurations reached by an accepted update of a running policy (every ordered pair): the
							// tree must be the one a fresh start with the second configuration builds
							for i, a := range cfgs {
								for j, b := range cfgs {
									if i != j {
										out = append(out, &scenario{name: m.Name + "/" + a.label + "->" + b.label, policy: polTA, machine: m, cfgs: []cfgSpec{a, b}, maxInc: 1})
									}
								}
							}
						}
					}
				}
			}
		}
	}
	return out
}

type blDef = blcfg.BalloonDef
