//go:build verif

package cpu

import (
	"sort"

	"github.com/containers/nri-plugins/pkg/resmgr/cache"
)

// VerifClassAssignments returns the cached CPU class assignment (class -> sorted CPU ids), read-only.
func VerifClassAssignments(c cache.Cache) map[string][]int {
	out := map[string][]int{}
	a := &cpuClassAssignments{}
	if !c.GetPolicyEntry(cacheKeyCPUAssignments, a) {
		return out
	}
	for class, ids := range *a {
		l := []int{}
		for id := range ids {
			l = append(l, int(id))
		}
		sort.Ints(l)
		out[class] = l
	}
	return out
}
