//go:build verif && !verif_nopush

package resmgr

// pushPending sends the pending container changes to the runtime the way reconfigure does. This file depends on the
// signature of an internal function; if a change to the repository alters it, the orchestrator rebuilds the harness with
// the verif_nopush tag (verif_nopush_test.go) instead of failing, and says so in the evidence.
func pushPending(m *resmgr) error { return m.nri.updateContainers() }

const pushAdapted = false
