//go:build verif

package resmgr

// Oracles. Each is written against the property text and reads the
// observables the property lists; private snapshots are used for ledger
// clauses and attribution only.

import (
	"context"
	"encoding/json"
	"fmt"
	"os"
	"path/filepath"
	"sort"
	"strconv"
	"strings"

	"github.com/containerd/nri/pkg/api"
	balloonspolicy "github.com/containers/nri-plugins/cmd/plugins/balloons/policy"
	cfgapi "github.com/containers/nri-plugins/pkg/apis/config/v1alpha1"
	"github.com/containers/nri-plugins/pkg/kubernetes"
	libmem "github.com/containers/nri-plugins/pkg/resmgr/lib/memory"
	"github.com/containers/nri-plugins/pkg/utils/cpuset"
	"github.com/containers/nri-plugins/pkg/verif/mc"
	"github.com/containers/nri-plugins/pkg/verif/sysgen"
)

type sysgenCPU = sysgen.CPU

const (
	annNS           = "resource-policy.nri.io"
	annPreserveCPU  = "cpu.preserve." + annNS
	annPreserveMem  = "memory.preserve." + annNS
	annPreferShared = "prefer-shared-cpus." + annNS
	annPreferIsol   = "prefer-isolated-cpus." + annNS
	annPreferRsvd   = "prefer-reserved-cpus." + annNS
	annHideHT       = "hide-hyperthreads." + annNS
	annMemType      = "memory-type." + annNS
	annColdStart    = "cold-start." + annNS
	annBalloon      = "balloon.balloons." + annNS
)

func parseSet(s string) cpuset.CPUSet {
	if s == "" {
		return cpuset.New()
	}
	c, err := cpuset.Parse(s)
	if err != nil {
		return cpuset.New()
	}
	return c
}

// effAnn is the reference effective-annotation resolver (container-specific, pod-wide, bare).
func (c *wctr) effAnn(key string) (string, bool) {
	a := c.pod.spec.annotations
	if v, ok := a[key+"/container."+c.spec.name]; ok {
		return v, true
	}
	if v, ok := a[key+"/pod"]; ok {
		return v, true
	}
	v, ok := a[key]
	return v, ok
}

func (c *wctr) cpuPreserved() bool { v, ok := c.effAnn(annPreserveCPU); return ok && v == "true" }
func (c *wctr) memPreserved() bool { v, ok := c.effAnn(annPreserveMem); return ok && v == "true" }

// verifCounters collects non-vacuity counters; runProp copies them into the worker result.
var verifCounters = map[string]int64{}

type viols struct {
	prop, scn string
	trace     []string
	out       []mc.Violation
}

func (v *viols) add(oracle, sig, format string, args ...any) {
	v.out = append(v.out, mc.Violation{Property: v.prop, Oracle: oracle, Signature: sig, Scenario: v.scn,
		Trace: append([]string{}, v.trace...), Detail: fmt.Sprintf(format, args...)})
}

// taConfig returns the topology-aware config effective in the world.
func (x *exec) taConfig() *cfgapi.TopologyAwarePolicy {
	c, _ := x.scn.cfgs[x.w.cfgIdx].build().(*cfgapi.TopologyAwarePolicy)
	return c
}

func (x *exec) onlineCPUs() cpuset.CPUSet {
	return cpuset.New(x.scn.machine.Model().OnlineCPUs()...)
}

// availableCPUs is the configured available set (all online CPUs if not configured).
func (x *exec) availableCPUs() cpuset.CPUSet {
	var avail string
	switch c := x.scn.cfgs[x.w.cfgIdx].build().(type) {
	case *cfgapi.TopologyAwarePolicy:
		avail = string(c.Spec.Config.AvailableResources["cpu"])
	case *cfgapi.BalloonsPolicy:
		avail = string(c.Spec.Config.AvailableResources["cpu"])
	}
	if strings.HasPrefix(avail, "cpuset:") {
		return parseSet(strings.TrimPrefix(avail, "cpuset:")).Intersection(x.onlineCPUs())
	}
	return x.onlineCPUs()
}

func globMatch(ns string, patterns []string) bool {
	for _, p := range patterns {
		if ok, _ := filepath.Match(p, ns); ok {
			return true
		}
	}
	return false
}

// reservedClass is the reference classifier for topology-aware reserved-class containers.
func (x *exec) reservedClass(c *wctr) bool {
	if v, ok := c.effAnn(annPreferRsvd); ok {
		if b, err := strconv.ParseBool(v); err == nil {
			return b
		}
	}
	ns := c.pod.spec.ns
	if ns == "kube-system" {
		return true
	}
	if cfg := x.taConfig(); cfg != nil {
		return globMatch(ns, cfg.Spec.Config.ReservedPoolNamespaces)
	}
	return false
}

// underCfg evaluates a reference predicate as if configuration idx were in force.
func (x *exec) underCfg(idx int, fn func() bool) bool {
	cur := x.w.cfgIdx
	x.w.cfgIdx = idx
	defer func() { x.w.cfgIdx = cur }()
	return fn()
}

func (x *exec) liveCtrs() []*wctr {
	var l []*wctr
	for _, c := range x.w.ctrs {
		if c.live() {
			l = append(l, c)
		}
	}
	return l
}

// ---------------------------------------------------------------------------
// C01

func oracleC01(x *exec, v *viols, pre, post *snap, rp *reply) {
	if post.TA == nil {
		return
	}
	live := x.liveCtrs()
	excl := map[string]cpuset.CPUSet{}
	for _, c := range live {
		d := post.Export[c.id()]
		excl[c.id()] = parseSet(d["EXCLUSIVE_CPUS"]).Union(parseSet(d["ISOLATED_CPUS"]))
	}
	avail := x.availableCPUs()
	var reserved cpuset.CPUSet
	for _, z := range post.Zones {
		if z.Parent == "" {
			reserved = parseSet(z.Attr["reserved cpuset"])
		}
	}
	// a reservation given as a cpuset is the reference itself (a quantity leaves the choice of CPUs to the policy)
	if cfg := x.taConfig(); cfg != nil {
		if r := string(cfg.Spec.Config.ReservedResources["cpu"]); strings.HasPrefix(r, "cpuset:") {
			reserved = parseSet(strings.TrimPrefix(r, "cpuset:"))
		}
	}
	for i, a := range live {
		ea := excl[a.id()]
		for _, b := range live[i+1:] {
			if common := ea.Intersection(excl[b.id()]); !common.IsEmpty() {
				v.add("exclusive-overlap", "exclusive-overlap", "containers %s and %s are both granted CPUs %s exclusively", a.id(), b.id(), common)
			}
		}
		if ea.IsEmpty() {
			continue
		}
		for _, b := range live {
			if b == a || b.cpuPreserved() {
				continue
			}
			// classify the victim so that distinct causes keep distinct signatures
			class := "victim-pinned"
			hasGrant := false
			for _, g := range post.TA.Grants {
				if g.ID == b.id() {
					hasGrant = true
				}
			}
			if !hasGrant {
				class = "victim-has-no-grant"
			} else if post.Cache[b.id()].Res.Cpus == "" {
				class = "victim-unpinned-in-cache"
			}
			if common := ea.Intersection(parseSet(b.told.Cpus)); !common.IsEmpty() {
				v.add("exclusive-in-other-told", "exclusive-in-other-told:"+class, "CPUs %s exclusive to %s are in the CPU set %q the runtime has been told for %s", common, a.id(), b.told.Cpus, b.id())
			}
			if cc, ok := post.Cache[b.id()]; ok {
				if common := ea.Intersection(parseSet(cc.Res.Cpus)); !common.IsEmpty() {
					v.add("exclusive-in-other-cache", "exclusive-in-other-cache:"+class, "CPUs %s exclusive to %s are in the cached CPU set %q of %s", common, a.id(), cc.Res.Cpus, b.id())
				}
			}
		}
		for _, z := range post.Zones {
			if common := ea.Intersection(parseSet(z.Attr["shared cpuset"])); !common.IsEmpty() {
				v.add("exclusive-in-shared-pool", "exclusive-in-shared-pool", "CPUs %s exclusive to %s are in the shared cpuset %q of pool %s", common, a.id(), z.Attr["shared cpuset"], z.Name)
			}
		}
	}
	for _, c := range live {
		if c.cpuPreserved() {
			continue
		}
		for _, view := range []struct{ name, cpus string }{{"told", c.told.Cpus}, {"cache", post.Cache[c.id()].Res.Cpus}} {
			cs := parseSet(view.cpus)
			if c.toldN == 0 && view.name == "told" {
				continue
			}
			class := view.name
			if view.name == "told" && post.Cache[c.id()].Res.Cpus == "" {
				// the cache holds an empty cpuset, which NRI cannot express: the runtime keeps the old pinning
				class = "told:unpinned-in-cache"
			}
			if out := cs.Difference(avail); !out.IsEmpty() {
				v.add("outside-available", "outside-available:"+class, "%s (%s view) is pinned to %s, CPUs %s are outside the available set %s", c.id(), view.name, cs, out, avail)
			}
			if touch := cs.Intersection(reserved); !touch.IsEmpty() {
				if !x.reservedClass(c) {
					cl := class
					if c.cfgAtAdm != x.w.cfgIdx && x.underCfg(c.cfgAtAdm, func() bool { return x.reservedClass(c) }) {
						// S29: it was reserved-class under the configuration it was admitted under; an accepted update changed
						// that and the policy re-instated the grant as it was
						cl += ":reserved-class-when-admitted-under-earlier-configuration"
					}
					v.add("reserved-to-non-reserved", "reserved-to-non-reserved:"+cl, "%s (%s view) is not reserved-class but is pinned to reserved CPUs %s (cpuset %s)", c.id(), view.name, touch, cs)
				} else if !cs.IsSubsetOf(reserved) {
					v.add("reserved-mixed", "reserved-mixed:"+class, "%s (%s view) mixes reserved CPUs %s with others in %s", c.id(), view.name, touch, cs)
				}
			}
		}
	}
	// private cross-check: no free supply lists a CPU some grant holds exclusively
	for _, g := range post.TA.Grants {
		ex := parseSet(g.Exclusive)
		if ex.IsEmpty() {
			continue
		}
		for _, p := range post.TA.Pools {
			if common := ex.Intersection(parseSet(p.FreeSharable).Union(parseSet(p.FreeIsolated))); !common.IsEmpty() {
				v.add("exclusive-in-free-supply", "exclusive-in-free-supply", "CPUs %s exclusive to %s are still free in pool %s", common, g.ID, p.Name)
			}
		}
	}
}

// ---------------------------------------------------------------------------
// C03

func (x *exec) expectedExclusive(c *wctr) int {
	if x.reservedClass(c) || c.pod.spec.qos != "Guaranteed" {
		return 0
	}
	cfg := x.taConfig()
	preferShared, annotated := false, false
	if cfg.Spec.Config.PreferShared != nil {
		preferShared = *cfg.Spec.Config.PreferShared
	}
	if val, ok := c.effAnn(annPreferShared); ok {
		if b, err := strconv.ParseBool(val); err == nil {
			preferShared, annotated = b, true
		}
	}
	cores, frac := int(c.req.cpuReq/1000), int(c.req.cpuReq%1000)
	switch {
	case cores == 0:
		return 0
	case cores == 1:
		if preferShared {
			return 0
		}
		return 1
	case frac > 0:
		if annotated && !preferShared {
			return cores
		}
		return 0
	default:
		if preferShared {
			return 0
		}
		return cores
	}
}

func oracleC03(x *exec, v *viols, pre, post *snap, rp *reply) {
	if post.TA == nil {
		return
	}
	cfg := x.taConfig()
	pools := map[string]int{}
	for i, p := range post.TA.Pools {
		pools[p.Name] = i
	}
	inSubtree := func(pool, root string) bool {
		for n := pool; n != ""; n = post.TA.Pools[pools[n]].Parent {
			if n == root {
				return true
			}
		}
		return false
	}
	// slicedByAncestor: some grant held by a strict ancestor of the pool took CPUs of this pool exclusively
	slicedByAncestor := func(pool string) string {
		pi, ok := pools[pool]
		if !ok {
			return "local"
		}
		total := parseSet(post.TA.Pools[pi].TotalSharable)
		if total.IsEmpty() {
			return "pool-has-no-sharable-cpus"
		}
		for _, g := range post.TA.Grants {
			if g.Pool != pool && inSubtree(pool, g.Pool) && !parseSet(g.Exclusive).Intersection(total).IsEmpty() {
				return "exclusive-sliced-by-ancestor-pool"
			}
		}
		return "local"
	}
	grantOf := map[string]string{}
	for _, g := range post.TA.Grants {
		grantOf[g.ID] = g.Pool
	}
	for _, p := range post.TA.Pools {
		shared, rsvd := 0, 0
		for _, g := range post.TA.Grants {
			if inSubtree(g.Pool, p.Name) {
				shared += g.SharedPortion
				rsvd += g.ReservedPortion
			}
		}
		if shared > 1000*p.FreeSharableCount {
			v.add("shared-oversubscribed", "shared-oversubscribed:"+slicedByAncestor(p.Name), "pool %s: %dm shared CPU promised in its subtree but only %d CPUs (%s) remain in its shared set", p.Name, shared, p.FreeSharableCount, p.FreeSharable)
		}
		if n := parseSet(p.FreeReserved).Size(); rsvd > 1000*n {
			v.add("reserved-oversubscribed", "reserved-oversubscribed", "pool %s: %dm reserved CPU promised but only %d reserved CPUs", p.Name, rsvd, n)
		}
		if shared != p.TreeGrantedShared || rsvd != p.TreeGrantedRsvd {
			v.add("ledger-mismatch", "ledger-mismatch", "pool %s: ledger says %dm shared/%dm reserved granted, grants add up to %dm/%dm", p.Name, p.TreeGrantedShared, p.TreeGrantedRsvd, shared, rsvd)
		}
	}
	for _, z := range post.Zones {
		if a := z.ResMilli["cpu"][2]; a < 0 {
			v.add("negative-available", "negative-available:"+slicedByAncestor(z.Name), "pool %s advertises negative available CPU %dm", z.Name, a)
		}
	}
	for _, c := range x.liveCtrs() {
		if c.cpuPreserved() || !cfg.Spec.Config.PinCPU {
			continue
		}
		cc, ok := post.Cache[c.id()]
		if !ok {
			continue
		}
		if _, has := grantOf[c.id()]; !has {
			v.add("live-container-without-grant", "live-container-without-grant", "live container %s (%s) holds no grant after %s", c.id(), lifeNames[c.life], rp.ev)
			continue
		}
		if cc.Res.Cpus == "" || c.told.Cpus == "" {
			v.add("empty-cpuset", "empty-cpuset:"+slicedByAncestor(grantOf[c.id()]), "CPU-pinned container %s has an empty allowed CPU set (cache %q, told %q)", c.id(), cc.Res.Cpus, c.told.Cpus)
		}
		d := post.Export[c.id()]
		ex, iso := parseSet(d["EXCLUSIVE_CPUS"]), parseSet(d["ISOLATED_CPUS"])
		if want, got := x.expectedExclusive(c), ex.Size()+iso.Size(); want != got {
			cause := ""
			if c.cfgAtAdm != x.w.cfgIdx && x.underCfg(c.cfgAtAdm, func() bool { return x.expectedExclusive(c) == got }) {
				cause = ":as-admitted-under-earlier-configuration" // S29
			}
			v.add("exclusive-count", fmt.Sprintf("exclusive-count:%s:want%d:got%d%s", c.spec.t.name, want, got, cause),
				"%s (%s, %dm, annotations %v) should get %d exclusive CPUs by the documented eligibility rules, got %d (%s %s)", c.id(), c.pod.spec.qos, c.req.cpuReq, c.pod.spec.annotations, want, got, ex, iso)
		}
		if !iso.IsEmpty() && !ex.IsEmpty() {
			v.add("partially-isolated", "partially-isolated", "%s got isolated CPUs %s mixed with ordinary exclusive CPUs %s", c.id(), iso, ex)
		}
		// weight = kubelet encoding of the granted capacity
		for _, g := range post.TA.Grants {
			if g.ID != c.id() {
				continue
			}
			milli := g.CPUPortion
			if milli == 0 {
				milli = 1000 * g.ExclusiveCount
			}
			want := kubernetes.MilliCPUToShares(int64(milli))
			if c.told.Shares != want || cc.Res.Shares != want {
				v.add("shares-mismatch", "shares-mismatch", "%s granted %dm (+%d exclusive): cpu.shares should be %d, told %d, cached %d", c.id(), g.CPUPortion, g.ExclusiveCount, want, c.told.Shares, cc.Res.Shares)
			}
		}
	}
}

// ---------------------------------------------------------------------------
// C05

func resDiff(told, cache res) []string {
	var d []string
	cmpSet := func(name, t, c string) {
		if c != "" && c != t {
			d = append(d, fmt.Sprintf("%s told=%q cache=%q", name, t, c))
		}
	}
	cmpSet("cpuset.cpus", told.Cpus, cache.Cpus)
	cmpSet("cpuset.mems", told.Mems, cache.Mems)
	if told.Shares != cache.Shares {
		d = append(d, fmt.Sprintf("cpu.shares told=%d cache=%d", told.Shares, cache.Shares))
	}
	if told.Quota != cache.Quota {
		d = append(d, fmt.Sprintf("cpu.quota told=%d cache=%d", told.Quota, cache.Quota))
	}
	if told.Period != cache.Period {
		d = append(d, fmt.Sprintf("cpu.period told=%d cache=%d", told.Period, cache.Period))
	}
	if told.MemLimit != cache.MemLimit {
		d = append(d, fmt.Sprintf("memory.limit told=%d cache=%d", told.MemLimit, cache.MemLimit))
	}
	if told.Swap != cache.Swap {
		d = append(d, fmt.Sprintf("memory.swap told=%d cache=%d", told.Swap, cache.Swap))
	}
	return d
}

// taChildSharedSetEmptied recognises the state known finding S16 describes: an exclusive grant held at an inner pool has
// taken every remaining shared CPU of a descendant pool that still has shared grants. Signatures of later symptoms carry
// it as their cause class, so that the known finding covers exactly those and nothing else.
func taChildSharedSetEmptied(s *snap) bool {
	if s == nil || s.TA == nil {
		return false
	}
	parent := map[string]string{}
	for _, p := range s.TA.Pools {
		parent[p.Name] = p.Parent
	}
	strictAncestor := func(a, of string) bool {
		for n := parent[of]; n != ""; n = parent[n] {
			if n == a {
				return true
			}
		}
		return false
	}
	for _, p := range s.TA.Pools {
		total := parseSet(p.TotalSharable)
		if total.IsEmpty() || p.FreeSharableCount > 0 {
			continue
		}
		shared := false
		for _, g := range s.TA.Grants {
			if g.Pool == p.Name && g.SharedPortion > 0 {
				shared = true
			}
		}
		if !shared {
			continue
		}
		for _, g := range s.TA.Grants {
			if strictAncestor(g.Pool, p.Name) && !parseSet(g.Exclusive).Intersection(total).IsEmpty() {
				return true
			}
		}
	}
	return false
}

func oracleC05(x *exec, v *viols, pre, post *snap, rp *reply) {
	for _, l := range x.log {
		f := strings.SplitN(l, "|", 3)
		sig := f[0]
		if f[0] == "update-dead-container" && pre != nil && len(pre.Cache[f[1]].Pending) > 0 {
			// the stale update was already pending before this request: an earlier reply left it behind
			sig += ":pending-left-by-earlier-request"
		}
		v.add(f[0], sig, "%s", f[2])
	}
	evKind := strings.Split(rp.ev, ":")[0]
	errS := "ok"
	if rp.err != nil {
		errS = "err"
	}
	for _, c := range x.liveCtrs() {
		cc, ok := post.Cache[c.id()]
		if !ok {
			v.add("live-container-not-cached", "live-container-not-cached:"+evKind, "after %s the runtime's live container %s is not in the cache", rp.ev, c.id())
			continue
		}
		if d := resDiff(c.told, cc.Res); len(d) > 0 {
			sig := "told-differs-from-cache:" + evKind + ":" + strings.Fields(d[0])[0]
			if rp.err != nil && evKind == "update" && len(cc.Pending) > 0 && x.scn.policy == polTA {
				// the refused update released the container's old grant before failing (S11): what that did to the others is
				// recorded, marked pending and delivered with the next reply. Without the pending mark it is lost for good.
				sig += ":still-pending-after-refused-update"
			}
			v.add("told-differs-from-cache", sig, "after %s container %s: %s", rp.ev, c.id(), strings.Join(d, "; "))
		}
		if len(cc.Pending) > 0 {
			sig := "change-left-pending:" + evKind + ":" + errS
			if evKind == "reconf" && rp.err != nil && taChildSharedSetEmptied(pre) {
				// the update and its rollback both fail because a grant cannot be reinstated in a pool whose shared set an
				// ancestor's exclusive grant emptied (S16)
				sig += ":child-shared-set-emptied-by-ancestor-slice"
			}
			v.add("change-left-pending", sig, "after %s container %s still has pending changes for %v", rp.ev, c.id(), cc.Pending)
		}
	}
	if evKind == "create" && rp.err == nil && rp.panic == "" && rp.target != nil {
		// the adjustment alone, applied to the request's resources, must reproduce the created container's cache view
		c := rp.target
		only := c.init
		if rp.adjust != nil {
			only.merge(rp.adjust.GetLinux().GetResources())
		}
		if cc, ok := post.Cache[c.id()]; ok {
			if d := resDiff(only, cc.Res); len(d) > 0 {
				v.add("adjustment-incomplete", "adjustment-incomplete", "create %s: adjustment alone gives %+v, cache has %+v (%s)", c.id(), only, cc.Res, strings.Join(d, "; "))
			}
		}
	}
}

// ---------------------------------------------------------------------------
// helpers shared by several oracles

func sortedIDs[V any](m map[string]V) []string {
	ids := make([]string, 0, len(m))
	for id := range m {
		ids = append(ids, id)
	}
	sort.Strings(ids)
	return ids
}

// ---------------------------------------------------------------------------
// C09

// oracleC09 (per request): a container the runtime has stopped or removed holds nothing.
func oracleC09(x *exec, v *viols, pre, post *snap, rp *reply) {
	all := append(append([]*wctr{}, x.w.ctrs...), x.w.old...)
	for _, c := range all {
		if c.life != lifeStopped && c.life != lifeRemoved {
			continue
		}
		what := lifeNames[c.life]
		if post.TA != nil {
			for _, g := range post.TA.Grants {
				if g.ID == c.id() {
					v.add("dead-container-holds-grant", "dead-container-holds-grant:"+what+":"+strings.Split(rp.ev, ":")[0], "after %s the %s container %s holds grant %+v", rp.ev, what, c.id(), g)
				}
			}
		}
		if post.BL != nil {
			for _, b := range post.BL.Balloons {
				for _, id := range b.Containers {
					if id == c.id() {
						v.add("dead-container-in-balloon", "dead-container-in-balloon:"+what+":"+strings.Split(rp.ev, ":")[0], "after %s the %s container %s is a member of balloon %s", rp.ev, what, c.id(), b.Name)
					}
				}
			}
		}
		if _, ok := post.MemZone[c.id()]; ok {
			v.add("dead-container-holds-memory", "dead-container-holds-memory:"+what+":"+strings.Split(rp.ev, ":")[0], "after %s the %s container %s holds a memory allocation", rp.ev, what, c.id())
		}
	}
}

var pristineCache = map[string]*snap{}

func pristine(s *scenario, cfgIdx int) *snap {
	key := fmt.Sprintf("%s/%d", s.name, cfgIdx)
	if p, ok := pristineCache[key]; ok {
		return p
	}
	dir := scratchDir() + "-pristine"
	os.RemoveAll(dir)
	os.MkdirAll(dir, 0o755)
	in, err := newInst(s, dir, cfgIdx)
	if err != nil {
		pristineCache[key] = nil
		return nil
	}
	x := &exec{scn: s, w: newWorld(s), in: in, dir: dir}
	x.w.cfgIdx = cfgIdx
	p := x.snapshot()
	pristineCache[key] = p
	os.RemoveAll(dir)
	return p
}

// drainC09 extends the state with "stop and remove everything" and compares with the pristine state.
func drainC09(w *mc.Worker, s *scenario, dir string, trace []string, x *exec, post *snap) []mc.Violation {
	if x.in.dead {
		return nil
	}
	v := &viols{prop: "C09", scn: s.name, trace: append(append([]string{}, trace...), "<drain>")}
	var drain []string
	for _, c := range x.w.ctrs {
		if c.live() {
			drain = append(drain, "stop:"+c.slot)
		}
		if c.live() || c.life == lifeStopped || c.life == lifeFailed {
			drain = append(drain, "remove:"+c.slot)
		}
	}
	for _, c := range x.w.old {
		// earlier incarnations that were never removed (stopped, or refused at creation: the runtime undoes a failed
		// creation with stop + remove events)
		if c.life == lifeStopped || c.life == lifeFailed {
			oc := c
			rp := &reply{ev: "remove:" + oc.id()}
			x.last = rp
			mc.Guard(func() { x.in.m.nri.RemoveContainer(context.Background(), oc.pod.nri(), oc.nri(oc.state(), oc.told)) })
			oc.life = lifeRemoved
		}
	}
	for _, p := range x.w.pods {
		if p.life == lifeRunning {
			drain = append(drain, "stoppod:"+p.slot)
		}
		if p.life == lifeRunning || p.life == lifeStopped {
			drain = append(drain, "rmpod:"+p.slot)
		}
	}
	for _, ev := range drain {
		rp := x.step(ev)
		if rp.panic != "" {
			pv := &viols{prop: "C14", scn: s.name, trace: v.trace}
			pv.add("panic", "panic@"+rp.where+":"+strings.Split(ev, ":")[0], "drain event %s panics: %s", ev, rp.panic)
			return pv.out
		}
	}
	end := x.snapshot()
	ref := pristine(s, x.w.cfgIdx)
	if ref == nil {
		return nil
	}
	if len(end.Cache) != 0 {
		v.add("cache-not-empty", "cache-not-empty", "after removing everything the cache still holds containers %v", sortedIDs(end.Cache))
	}
	if len(end.MemReqs) != 0 {
		v.add("memory-leak", "memory-leak", "after removing everything the memory allocator still holds %+v", end.MemReqs)
	}
	if end.TA != nil {
		if len(end.TA.Grants) != 0 {
			v.add("grant-leak", "grant-leak", "after removing everything grants remain: %+v", end.TA.Grants)
		}
		for i, p := range end.TA.Pools {
			if i >= len(ref.TA.Pools) {
				break
			}
			r := ref.TA.Pools[i]
			if p.FreeSharable != r.FreeSharable || p.FreeIsolated != r.FreeIsolated || p.FreeReserved != r.FreeReserved ||
				p.TreeGrantedShared != r.TreeGrantedShared || p.TreeGrantedRsvd != r.TreeGrantedRsvd || p.AllocatableShared != r.AllocatableShared {
				v.add("pool-not-pristine", "pool-not-pristine", "pool %s after removing everything: %+v, right after configuration: %+v", p.Name, p, r)
			}
		}
	}
	if end.BL != nil {
		a, _ := json.Marshal(end.BL)
		b, _ := json.Marshal(ref.BL)
		if string(a) != string(b) {
			// compare what the property states: only pre-created balloons at minimum size, all other CPUs idle
			if len(end.BL.Balloons) != len(ref.BL.Balloons) {
				names := []string{}
				for _, bl := range end.BL.Balloons {
					names = append(names, fmt.Sprintf("%s{%s}", bl.Name, bl.Cpus))
				}
				v.add("balloon-leak", "balloon-leak", "after removing everything balloons are %v, right after configuration there are %d", names, len(ref.BL.Balloons))
			} else {
				for i, bl := range end.BL.Balloons {
					r := ref.BL.Balloons[i]
					if bl.Name != r.Name || bl.CpuCount != r.CpuCount || len(bl.Containers) != 0 {
						v.add("balloon-not-pristine", "balloon-not-pristine", "balloon %s after removing everything: %d CPUs (%s), containers %v; pristine %s: %d CPUs", bl.Name, bl.CpuCount, bl.Cpus, bl.Containers, r.Name, r.CpuCount)
					}
				}
			}
			if parseSet(end.BL.Free).Size() != parseSet(ref.BL.Free).Size() {
				v.add("free-cpus-not-pristine", "free-cpus-not-pristine", "free CPUs after removing everything: %s, pristine: %s", end.BL.Free, ref.BL.Free)
			}
		}
	}
	// public view: zones
	if len(end.Zones) == len(ref.Zones) && end.TA != nil {
		for i, z := range end.Zones {
			a, _ := json.Marshal(z)
			b, _ := json.Marshal(ref.Zones[i])
			if string(a) != string(b) {
				v.add("zone-not-pristine", "zone-not-pristine", "zone %s after removing everything: %s, pristine: %s", z.Name, a, b)
			}
		}
	} else if len(end.Zones) != len(ref.Zones) {
		v.add("zone-count", "zone-count", "%d zones after removing everything, %d right after configuration", len(end.Zones), len(ref.Zones))
	}
	return v.out
}

// ---------------------------------------------------------------------------
// C02 (balloons)

func (x *exec) blConfig() *cfgapi.BalloonsPolicy {
	c, _ := x.scn.cfgs[x.w.cfgIdx].build().(*cfgapi.BalloonsPolicy)
	return c
}

// scopeCPUs: the CPUs of all topology units of the given level that contain a CPU of cpus.
func (x *exec) scopeCPUs(level string, cpus cpuset.CPUSet) cpuset.CPUSet {
	m := x.scn.machine.Model()
	unit := func(c *sysgenCPU) string {
		switch level {
		case "system":
			return "sys"
		case "package":
			return fmt.Sprintf("p%d", c.Pkg)
		case "die":
			return fmt.Sprintf("p%dd%d", c.Pkg, c.Die)
		case "numa":
			return fmt.Sprintf("n%d", c.Node)
		case "l2cache", "core":
			return fmt.Sprintf("p%dc%d", c.Pkg, c.Core)
		case "thread":
			return fmt.Sprintf("t%d", c.ID)
		}
		return ""
	}
	units := map[string]bool{}
	for i := range m.CPUs {
		if cpus.Contains(m.CPUs[i].ID) {
			units[unit(&m.CPUs[i])] = true
		}
	}
	out := []int{}
	for i := range m.CPUs {
		if m.CPUs[i].Online && units[unit(&m.CPUs[i])] {
			out = append(out, m.CPUs[i].ID)
		}
	}
	return cpuset.New(out...)
}

// singleThread keeps the lowest CPU id of every physical core.
func (x *exec) singleThread(cpus cpuset.CPUSet) cpuset.CPUSet {
	m := x.scn.machine.Model()
	seen := map[string]bool{}
	out := []int{}
	for _, id := range cpus.List() {
		c := m.CPUs[id]
		k := fmt.Sprintf("p%dc%d", c.Pkg, c.Core)
		if !seen[k] {
			seen[k] = true
			out = append(out, id)
		}
	}
	return cpuset.New(out...)
}

func oracleC02(x *exec, v *viols, pre, post *snap, rp *reply) {
	if post.BL == nil {
		return
	}
	cfg := x.blConfig()
	avail := x.availableCPUs()
	isolated := cpuset.New(x.scn.machine.Model().IsolatedCPUs()...)
	blns := append([]balloonspolicy.VerifBalloon{}, post.BL.Balloons...)
	// The reference for a balloon's limits and options is its type in the configuration in force, not what the balloon
	// object remembers: a balloon that kept a stale definition is itself a violation, and is judged by the configured one.
	if cfg != nil {
		for i := range blns {
			b := &blns[i]
			for _, d := range cfg.Spec.Config.BalloonDefs {
				if d.Name != b.Def {
					continue
				}
				hide := d.HideHyperthreads != nil && *d.HideHyperthreads
				for _, f := range []struct {
					name      string
					got, want any
				}{{"minCPUs", b.MinCpus, d.MinCpus}, {"maxCPUs", b.MaxCpus, d.MaxCpus}, {"minBalloons", b.MinBlns, d.MinBalloons}, {"maxBalloons", b.MaxBlns, d.MaxBalloons},
					{"cpuClass", b.CpuClass, d.CpuClass}, {"shareIdleCPUsInSame", b.ShareIdle, string(d.ShareIdleCpusInSame)}, {"hideHyperthreads", b.HideHT, hide}} {
					if fmt.Sprint(f.got) != fmt.Sprint(f.want) {
						v.add("balloon-def-stale", "balloon-def-stale:"+f.name, "after %s balloon %s remembers %s=%v, the configuration in force gives its type %v", rp.ev, b.Name, f.name, f.got, f.want)
					}
				}
				b.MinCpus, b.MaxCpus, b.MinBlns, b.MaxBlns, b.CpuClass, b.ShareIdle, b.HideHT = d.MinCpus, d.MaxCpus, d.MinBalloons, d.MaxBalloons, d.CpuClass, string(d.ShareIdleCpusInSame), hide
			}
		}
	}
	inBalloons := cpuset.New()
	for i, a := range blns {
		ac := parseSet(a.Cpus)
		if out := ac.Difference(avail); !out.IsEmpty() {
			v.add("balloon-outside-available", "balloon-outside-available", "balloon %s has CPUs %s outside the available set %s", a.Name, out, avail)
		}
		for _, b := range blns[i+1:] {
			if common := ac.Intersection(parseSet(b.Cpus)); !common.IsEmpty() {
				v.add("balloons-overlap", "balloons-overlap", "balloons %s and %s share CPUs %s", a.Name, b.Name, common)
			}
		}
		inBalloons = inBalloons.Union(ac)
	}
	idle := avail.Difference(inBalloons)
	// zones must tell the same story as the snapshot (public observable)
	zone := map[string]zoneSnap{}
	for _, z := range post.Zones {
		zone[z.Name] = z
	}
	perDef := map[string]int{}
	for _, b := range blns {
		perDef[b.Def]++
		bc, sh := parseSet(b.Cpus), parseSet(b.SharedIdle)
		if z, ok := zone[b.Name]; !ok {
			v.add("balloon-without-zone", "balloon-without-zone", "balloon %s is not advertised as a topology zone", b.Name)
		} else if z.Attr["cpuset"] != b.Cpus || z.Attr["shared cpuset"] != b.SharedIdle {
			v.add("zone-differs-from-balloon", "zone-differs-from-balloon", "zone %s advertises cpuset %q / shared %q, balloon has %q / %q", b.Name, z.Attr["cpuset"], z.Attr["shared cpuset"], b.Cpus, b.SharedIdle)
		}
		// shared idle CPUs
		if bad := sh.Intersection(inBalloons); !bad.IsEmpty() {
			v.add("shared-idle-in-balloon", "shared-idle-in-balloon", "balloon %s shares idle CPUs %s that belong to some balloon", b.Name, bad)
		}
		if bad := sh.Intersection(isolated); !bad.IsEmpty() {
			v.add("shared-idle-isolated", "shared-idle-isolated", "balloon %s shares kernel-isolated CPUs %s", b.Name, bad)
		}
		if b.ShareIdle == "" {
			if !sh.IsEmpty() {
				v.add("shared-idle-unconfigured", "shared-idle-unconfigured", "balloon %s has shared idle CPUs %s although its type does not share idle CPUs", b.Name, sh)
			}
		} else {
			want := idle.Difference(isolated).Intersection(x.scopeCPUs(b.ShareIdle, bc))
			if missing := want.Difference(sh); !missing.IsEmpty() {
				v.add("shared-idle-missing", "shared-idle-missing:"+strings.Split(rp.ev, ":")[0], "after %s balloon %s (cpus %s, shares idle CPUs in same %s) lacks idle CPUs %s in its shared set %s", rp.ev, b.Name, b.Cpus, b.ShareIdle, missing, sh)
			}
			if extra := sh.Difference(x.scopeCPUs(b.ShareIdle, bc)); !extra.IsEmpty() && !bc.IsEmpty() {
				// Not a violation: the property bounds the shared idle set from below only ("include every idle CPU in
				// the scope"). A balloon that shrank keeps idle CPUs of a scope it no longer touches; counted, not judged.
				verifCounters["c02_shared_idle_beyond_current_scope"]++
			}
		}
		// limits
		if b.CpuCount < b.MinCpus || (b.MaxCpus > 0 && b.CpuCount > b.MaxCpus) {
			v.add("cpu-limits", "cpu-limits", "balloon %s has %d CPUs, type limits are min %d max %d", b.Name, b.CpuCount, b.MinCpus, b.MaxCpus)
		}
		if len(b.Containers) > 0 {
			req := int64(0)
			for _, id := range b.Containers {
				if c := x.w.byID[id]; c != nil {
					req += c.req.cpuReq
				}
			}
			if b.CpuCount < 1 || int64(1000*b.CpuCount) < req {
				if !(b.MaxCpus > 0 && b.CpuCount == b.MaxCpus) {
					v.add("balloon-too-small", "balloon-too-small", "balloon %s has %d CPUs for containers %v requesting %dm", b.Name, b.CpuCount, b.Containers, req)
				} else {
					v.add("balloon-overfull", "balloon-overfull", "balloon %s is at its maxCPUs %d but its containers %v request %dm", b.Name, b.MaxCpus, b.Containers, req)
				}
			}
		}
	}
	// instance limits per type
	if cfg != nil {
		seen := map[string]bool{}
		for _, b := range blns {
			if seen[b.Def] {
				continue
			}
			seen[b.Def] = true
			if perDef[b.Def] < b.MinBlns || (b.MaxBlns > 0 && perDef[b.Def] > b.MaxBlns) {
				v.add("instance-limits", "instance-limits", "balloon type %s has %d instances, limits are min %d max %d", b.Def, perDef[b.Def], b.MinBlns, b.MaxBlns)
			}
		}
		for _, d := range cfg.Spec.Config.BalloonDefs {
			if d.MinBalloons > 0 && perDef[d.Name] < d.MinBalloons {
				v.add("instance-limits", "instance-limits", "balloon type %s has %d instances, minBalloons is %d", d.Name, perDef[d.Name], d.MinBalloons)
			}
		}
	}
	// membership and pinning
	pinCPU := cfg == nil || cfg.Spec.Config.PinCPU == nil || *cfg.Spec.Config.PinCPU
	for _, c := range x.liveCtrs() {
		if c.cpuPreserved() || x.preserveRuleMatches(c) {
			continue
		}
		var home *int
		n := 0
		for i, b := range blns {
			for _, id := range b.Containers {
				if id == c.id() {
					n++
					j := i
					home = &j
				}
			}
		}
		if n != 1 {
			v.add("membership", fmt.Sprintf("membership:%d:%s", n, strings.Split(rp.ev, ":")[0]), "after %s live container %s belongs to %d balloons", rp.ev, c.id(), n)
			continue
		}
		if !pinCPU {
			continue
		}
		b := blns[*home]
		want := parseSet(b.Cpus).Union(parseSet(b.SharedIdle))
		hide := b.HideHT
		if val, ok := c.effAnn(annHideHT); ok {
			if h, err := strconv.ParseBool(val); err == nil {
				hide = h
			}
		}
		if hide {
			want = x.singleThread(want)
		}
		cc := post.Cache[c.id()]
		if got := parseSet(cc.Res.Cpus); !c08eq(got, want) {
			v.add("container-cpus-cache", "container-cpus-cache:"+strings.Split(rp.ev, ":")[0], "after %s container %s in balloon %s (cpus %s shared %s hideHT %v): cached cpuset %q, expected %s", rp.ev, c.id(), b.Name, b.Cpus, b.SharedIdle, hide, cc.Res.Cpus, want)
		}
		if got := parseSet(c.told.Cpus); !c08eq(got, want) {
			v.add("container-cpus-told", "container-cpus-told:"+strings.Split(rp.ev, ":")[0], "after %s container %s in balloon %s (cpus %s shared %s hideHT %v): runtime was told %q, expected %s", rp.ev, c.id(), b.Name, b.Cpus, b.SharedIdle, hide, c.told.Cpus, want)
		}
	}
	// CPU classes
	if cfg != nil {
		want := map[string][]int{}
		classOf := map[int]string{}
		for _, id := range avail.List() {
			classOf[id] = cfg.Spec.Config.IdleCpuClass
		}
		for _, b := range blns {
			for _, id := range parseSet(b.Cpus).List() {
				classOf[id] = b.CpuClass
			}
		}
		for id, cl := range classOf {
			want[cl] = append(want[cl], id)
		}
		// every class a CPU is listed in (a CPU listed in two classes is wrong whichever of them is the expected one)
		got := map[int][]string{}
		for cl, ids := range post.CPUClass {
			for _, id := range ids {
				got[id] = append(got[id], cl)
			}
		}
		for _, id := range avail.List() {
			g := got[id]
			sort.Strings(g)
			if len(g) != 1 || g[0] != classOf[id] {
				v.add("cpu-class", "cpu-class:"+strings.Split(rp.ev, ":")[0], "after %s CPU %d carries class(es) %q, expected exactly %q", rp.ev, id, g, classOf[id])
				break
			}
		}
	}
}

func c08eq(a, b cpuset.CPUSet) bool { return a.Size() == b.Size() && a.IsSubsetOf(b) }

// preserveRuleMatches: reference evaluation of the balloons 'preserve' match rule (scenarios use only name-equality rules).
func (x *exec) preserveRuleMatches(c *wctr) bool {
	cfg := x.blConfig()
	if cfg == nil || cfg.Spec.Config.Preserve == nil {
		return false
	}
	for _, e := range cfg.Spec.Config.Preserve.MatchExpressions {
		if e.Key == "name" && string(e.Op) == "Equals" && len(e.Values) == 1 && e.Values[0] == c.spec.name {
			return true
		}
		if e.Key == "pod/name" && string(e.Op) == "Equals" && len(e.Values) == 1 && e.Values[0] == c.pod.spec.name {
			return true
		}
	}
	return false
}

// ---------------------------------------------------------------------------
// C04

func maskString(m uint64) string { return libmem.NodeMask(m).MemsetString() }

// memPinned: does memory pinning apply to the container (reference reading of configuration and annotations)?
func (x *exec) memPinned(c *wctr, post *snap) bool {
	if c.memPreserved() {
		return false
	}
	switch cfg := x.scn.cfgs[x.w.cfgIdx].build().(type) {
	case *cfgapi.TopologyAwarePolicy:
		return cfg.Spec.Config.PinMemory && !c.cpuPreservedAndMemUnset()
	case *cfgapi.BalloonsPolicy:
		if c.cpuPreserved() || x.preserveRuleMatches(c) {
			return false
		}
		pin := cfg.Spec.Config.PinMemory == nil || *cfg.Spec.Config.PinMemory
		if post.BL != nil {
			for _, b := range post.BL.Balloons {
				for _, id := range b.Containers {
					if id == c.id() {
						for _, d := range cfg.Spec.Config.BalloonDefs {
							if d.Name == b.Def && d.PinMemory != nil {
								pin = *d.PinMemory
							}
						}
					}
				}
			}
		}
		return pin
	}
	return false
}

func (c *wctr) cpuPreservedAndMemUnset() bool { return false }

func oracleC04(x *exec, v *viols, pre, post *snap, rp *reply) {
	evKind := strings.Split(rp.ev, ":")[0]
	for _, c := range x.liveCtrs() {
		if !x.memPinned(c, post) {
			continue
		}
		cc, ok := post.Cache[c.id()]
		if !ok {
			continue
		}
		z, assigned := post.MemZone[c.id()]
		if assigned {
			verifCounters["c04_pinned_container_checked_against_allocator"]++
			if libmem.NodeMask(z).Size() > 1 {
				verifCounters["c04_multi_node_zone"]++
			}
		}
		for _, view := range []struct{ name, mems string }{{"told", c.told.Mems}, {"cache", cc.Res.Mems}} {
			if assigned && view.mems != maskString(z) {
				v.add("mems-differ-from-allocator", "mems-differ-from-allocator:"+view.name+":"+evKind, "after %s container %s: %s cpuset.mems %q but the allocator assigns zone %q", rp.ev, c.id(), view.name, view.mems, maskString(z))
			}
			if view.mems == "" {
				v.add("mems-empty", "mems-empty:"+view.name+":"+evKind, "after %s memory-pinned container %s has empty %s cpuset.mems", rp.ev, c.id(), view.name)
				continue
			}
			for _, n := range parseSet(view.mems).List() {
				if post.MemAll&(1<<uint(n)) == 0 {
					v.add("mems-without-memory", "mems-without-memory:"+view.name, "after %s container %s is pinned (%s) to node %d which does not exist or has no memory (mems %q)", rp.ev, c.id(), view.name, n, view.mems)
				}
			}
		}
	}
	if rp.err == nil {
		// what an allocation weighs is what its container needs (the request the cache reconstructed, else the limit; the
		// limit for balloons) - not what the allocator remembers about it
		weight := map[string]int64{}
		for _, r := range post.MemReqs {
			weight[r.ID] = r.Size
			if c, ok := x.rawCache().LookupContainer(r.ID); ok {
				rq := c.GetResourceRequirements()
				lim := rq.Limits.Memory().Value()
				want := lim
				if x.scn.policy == polTA {
					if req := rq.Requests.Memory().Value(); req != 0 {
						want = req
					}
				}
				if want > 0 {
					weight[r.ID] = want
				}
			}
		}
		for set, capa := range post.MemCap {
			var used int64
			isZone := false
			for _, r := range post.MemReqs {
				if r.Zone&^set == 0 {
					used += weight[r.ID]
				}
				if r.Zone == set {
					isZone = true
				}
			}
			if used > capa {
				class := "union-of-overlapping-zones"
				if isZone {
					class = "assigned-zone"
				}
				v.add("memory-oversubscribed", "memory-oversubscribed:"+class, "after %s nodes %s hold allocations of %d bytes confined to them, capacity %d", rp.ev, maskString(set), used, capa)
			}
		}
	}
	// zones of other containers that widened during this request must be delivered in this request
	if pre != nil && rp.panic == "" {
		delivered := map[string]string{}
		for _, u := range append(append([]*api.ContainerUpdate{}, rp.updates...), rp.pushed...) {
			if m := u.GetLinux().GetResources().GetCpu().GetMems(); m != "" {
				delivered[u.GetContainerId()] = m
			}
		}
		for id, z := range post.MemZone {
			old, had := pre.MemZone[id]
			c := x.w.byID[id]
			if !had || old == z || c == nil || !c.live() || (rp.target != nil && rp.target.id() == id) || !x.memPinned(c, post) {
				continue
			}
			verifCounters["c04_zones_widened_for_other_container"]++
			if delivered[id] != maskString(z) {
				v.add("widened-zone-not-delivered", "widened-zone-not-delivered:"+evKind, "%s moved the memory of %s from %s to %s but the reply delivers mems %q for it", rp.ev, id, maskString(old), maskString(z), delivered[id])
			}
		}
	}
}

// ---------------------------------------------------------------------------
// C12

func (x *exec) balloonDefOf(c *wctr, post *snap) string {
	if post.BL == nil {
		return ""
	}
	for _, b := range post.BL.Balloons {
		for _, id := range b.Containers {
			if id == c.id() {
				return b.Def
			}
		}
	}
	return ""
}

// cpuOptedOut / memOptedOut: reference reading of annotations and configuration.
func (x *exec) cpuOptedOut(c *wctr) (bool, string) {
	if c.cpuPreserved() {
		return true, "cpu.preserve annotation"
	}
	switch cfg := x.scn.cfgs[x.w.cfgIdx].build().(type) {
	case *cfgapi.TopologyAwarePolicy:
		if !cfg.Spec.Config.PinCPU {
			return true, "pinCPU: false"
		}
	case *cfgapi.BalloonsPolicy:
		if x.preserveRuleMatches(c) {
			return true, "balloons preserve rule"
		}
		if cfg.Spec.Config.PinCPU != nil && !*cfg.Spec.Config.PinCPU {
			return true, "pinCPU: false"
		}
	}
	return false, ""
}

func (x *exec) memOptedOut(c *wctr, post *snap) (bool, string) {
	if c.memPreserved() {
		return true, "memory.preserve annotation"
	}
	switch cfg := x.scn.cfgs[x.w.cfgIdx].build().(type) {
	case *cfgapi.TopologyAwarePolicy:
		if !cfg.Spec.Config.PinMemory {
			return true, "pinMemory: false"
		}
	case *cfgapi.BalloonsPolicy:
		pin := cfg.Spec.Config.PinMemory == nil || *cfg.Spec.Config.PinMemory
		why := "pinMemory: false"
		if def := x.balloonDefOf(c, post); def != "" {
			for _, d := range cfg.Spec.Config.BalloonDefs {
				if d.Name == def && d.PinMemory != nil {
					pin, why = *d.PinMemory, "pinMemory: false for balloon type "+def
				}
			}
		} else if x.preSnap != nil {
			if pre := x.balloonDefOf(c, x.preSnap); pre != "" {
				for _, d := range cfg.Spec.Config.BalloonDefs {
					if d.Name == pre && d.PinMemory != nil {
						pin, why = *d.PinMemory, "pinMemory: false for balloon type "+pre
					}
				}
			}
		}
		if !pin {
			return true, why
		}
	}
	return false, ""
}

func oracleC12(x *exec, v *viols, pre, post *snap, rp *reply) {
	evKind := strings.Split(rp.ev, ":")[0]
	// configuration in effect while the request was processed: for a reconfiguration judge against both old and new
	for _, a := range x.addr[x.addrMark:] {
		c := x.w.byID[a.id]
		if c == nil {
			continue
		}
		if out, why := x.cpuOptedOut(c); out && a.cpus != "" && a.cpus != c.init.Cpus {
			if evKind == "reconf" && !x.cpuOptedOutUnder(c, x.cfgBefore) {
				// opted out only under the new configuration; the update may legitimately stem from the old one
			} else {
				verifCounters["c12_optout_violations_seen"]++
				v.add("cpu-optout-told-cpus", "cpu-optout-told-cpus:"+a.kind+":"+evKind, "%s: container %s is opted out of CPU pinning (%s; created with cpus %q) but the %s tells it cpus %q", rp.ev, a.id, why, c.init.Cpus, a.kind, a.cpus)
			}
		}
		if out, why := x.memOptedOut(c, post); out && a.mems != "" && a.mems != a.hadMems {
			verifCounters["c12_optout_violations_seen"]++
			v.add("mem-optout-told-mems", "mem-optout-told-mems:"+a.kind+":"+evKind, "%s: container %s is opted out of memory pinning (%s; had mems %q) but the %s tells it mems %q", rp.ev, a.id, why, a.hadMems, a.kind, a.mems)
		}
	}
	for _, c := range x.liveCtrs() {
		if o, _ := x.cpuOptedOut(c); o {
			verifCounters["c12_states_with_cpu_opted_out_container"]++
			break
		}
	}
	for _, c := range x.liveCtrs() {
		if o, _ := x.memOptedOut(c, post); o {
			verifCounters["c12_states_with_mem_opted_out_container"]++
			break
		}
	}
}

func (x *exec) cpuOptedOutUnder(c *wctr, cfgIdx int) bool {
	saved := x.w.cfgIdx
	x.w.cfgIdx = cfgIdx
	o, _ := x.cpuOptedOut(c)
	x.w.cfgIdx = saved
	return o
}

// ---------------------------------------------------------------------------
// C13

func cacheView(s *snap) string {
	d, _ := json.Marshal(s.Cache)
	return string(d)
}

func zonesView(s *snap) string {
	d, _ := json.Marshal(s.Zones)
	return string(d)
}

func policyView(s *snap) string {
	d, _ := json.Marshal(struct {
		TA, BL, Mem, Req, Cls any
	}{s.TA, s.BL, s.MemZone, s.MemReqs, s.CPUClass})
	return string(d)
}

func firstDiff(a, b string) string {
	n := len(a)
	if len(b) < n {
		n = len(b)
	}
	i := 0
	for i < n && a[i] == b[i] {
		i++
	}
	lo := i - 80
	if lo < 0 {
		lo = 0
	}
	ha, hb := i+120, i+120
	if ha > len(a) {
		ha = len(a)
	}
	if hb > len(b) {
		hb = len(b)
	}
	return fmt.Sprintf("...%s  <>  ...%s", a[lo:ha], b[lo:hb])
}

func oracleC13(x *exec, v *viols, pre, post *snap, rp *reply) {
	f := strings.Split(rp.ev, ":")
	if f[0] != "reconf" || pre == nil || rp.panic != "" {
		return
	}
	var idx int
	fmt.Sscanf(f[1], "%d", &idx)
	label := x.scn.cfgs[idx].label
	switch {
	case rp.err == nil && idx == x.cfgBefore:
		verifCounters["c13_identical_reconfigurations"]++
		// idempotence: nothing about any container changes, pushed updates are no-ops
		if a, b := cacheView(pre), cacheView(post); a != b {
			v.add("identical-config-changed-containers", "identical-config-changed-containers", "re-applying configuration %q changed container resources: %s", label, firstDiff(a, b))
		}
		for _, u := range rp.pushed {
			c := x.w.byID[u.GetContainerId()]
			if c == nil {
				continue
			}
			before := x.toldBefore[u.GetContainerId()]
			after := before
			after.merge(u.GetLinux().GetResources())
			if after != before {
				v.add("identical-config-pushed-change", "identical-config-pushed-change", "re-applying configuration %q pushed a real change to %s: %+v -> %+v", label, c.id(), before, after)
			}
		}
	case rp.err != nil:
		verifCounters["c13_rejected_reconfigurations"]++
		if a, b := cacheView(pre), cacheView(post); a != b {
			v.add("rejected-config-changed-containers", "rejected-config-changed-containers:"+label, "rejected configuration %q (%v) changed container resources: %s", label, rp.err, firstDiff(a, b))
		}
		if a, b := zonesView(pre), zonesView(post); a != b {
			v.add("rejected-config-changed-zones", "rejected-config-changed-zones:"+label, "rejected configuration %q (%v) changed advertised capacities: %s", label, rp.err, firstDiff(a, b))
		}
		if a, b := policyView(pre), policyView(post); a != b {
			v.add("rejected-config-changed-policy-state", "rejected-config-changed-policy-state:"+label, "rejected configuration %q (%v) changed policy state: %s", label, rp.err, firstDiff(a, b))
		}
		if len(rp.pushed) > 0 {
			changed := false
			for _, u := range rp.pushed {
				before := x.toldBefore[u.GetContainerId()]
				after := before
				after.merge(u.GetLinux().GetResources())
				if after != before {
					changed = true
				}
			}
			if changed {
				v.add("rejected-config-pushed-change", "rejected-config-pushed-change:"+label, "rejected configuration %q pushed real changes to the runtime", label)
			}
		}
	default:
		verifCounters["c13_accepted_reconfigurations"]++
		// every created/running container still holds an allocation; all invariants hold under the new configuration
		for _, c := range x.liveCtrs() {
			held := false
			if post.TA != nil {
				for _, g := range post.TA.Grants {
					if g.ID == c.id() {
						held = true
					}
				}
			}
			if post.BL != nil {
				if o, _ := x.cpuOptedOut(c); o && (c.cpuPreserved() || x.preserveRuleMatches(c)) {
					held = true
				}
				if x.balloonDefOf(c, post) != "" {
					held = true
				}
			}
			if !held {
				v.add("live-container-lost-allocation", "live-container-lost-allocation:"+label, "after accepted configuration %q live container %s holds no allocation", label, c.id())
			}
		}
		if tc := x.taConfig(); post.TA != nil && tc != nil && !tc.Spec.Config.PinMemory {
			// the configuration in force does not pin memory: what the policy records for a container admitted earlier must be
			// what it records for one admitted now - no memory nodes
			for _, c := range x.liveCtrs() {
				if cc, ok := post.Cache[c.id()]; ok && cc.Res.Mems != "" && !c.memPreserved() {
					v.add("memory-pinned-while-pinning-is-off", "after-accepted-config/memory-pinned-while-pinning-is-off", "after accepted configuration %q (pinMemory: false) container %s is still recorded with memory nodes %q", label, c.id(), cc.Res.Mems)
				}
			}
		}
		sub := &viols{prop: "C13", scn: v.scn, trace: v.trace}
		if post.TA != nil {
			oracleC01(x, sub, pre, post, rp)
			oracleC03(x, sub, pre, post, rp)
		} else {
			oracleC02(x, sub, pre, post, rp)
		}
		oracleC04(x, sub, pre, post, rp)
		oracleC05(x, sub, pre, post, rp)
		oracleC09(x, sub, pre, post, rp)
		for _, sv := range sub.out {
			sv.Signature = "after-accepted-config/" + sv.Signature
			sv.Oracle = "after-accepted-config/" + sv.Oracle
			v.out = append(v.out, sv)
		}
	}
}

// twinC13: a trace with rejected configuration updates must end in the same state, with the same last reply, as the same trace without them.
func twinC13(pd *propDef) func(w *mc.Worker, s *scenario, dir string, trace []string, x *exec, post *snap) []mc.Violation {
	return func(w *mc.Worker, s *scenario, dir string, trace []string, x *exec, post *snap) []mc.Violation {
		if len(x.rejected) == 0 || x.in.dead || strings.HasPrefix(trace[len(trace)-1], "reconf") {
			return nil
		}
		var twin []string
		rej := map[int]bool{}
		for _, i := range x.rejected {
			rej[i] = true
		}
		for i, ev := range trace {
			if !rej[i] {
				twin = append(twin, ev)
			}
		}
		lastRP := x.last
		_, tx, tpost := runTrace(pd, s, twin, false)
		if tx == nil || tpost == nil {
			return nil
		}
		verifCounters["c13_twin_comparisons"]++
		v := &viols{prop: "C13", scn: s.name, trace: trace}
		pc, tc := *post, *tpost
		pc.KeyOnly, tc.KeyOnly = nil, nil
		a, _ := json.Marshal(&pc)
		b, _ := json.Marshal(&tc)
		labels := []string{}
		for _, i := range x.rejected {
			var k int
			fmt.Sscanf(strings.Split(trace[i], ":")[1], "%d", &k)
			labels = append(labels, s.cfgs[k].label)
		}
		sort.Strings(labels)
		lab := strings.Join(labels, "+")
		differs := string(a) != string(b) || (lastRP.err == nil) != (tx.last.err == nil) || len(lastRP.updates) != len(tx.last.updates)
		if differs && len(x.rejected) > 1 {
			// name the refused updates that are responsible on their own: the trace is replayed with each of them kept alone
			cul := map[string]bool{}
			for _, keep := range x.rejected {
				var t1 []string
				for i, ev := range trace {
					if !rej[i] || i == keep {
						t1 = append(t1, ev)
					}
				}
				_, x1, p1 := runTrace(pd, s, t1, false)
				if x1 == nil || p1 == nil {
					continue
				}
				c1 := *p1
				c1.KeyOnly = nil
				d1, _ := json.Marshal(&c1)
				if string(d1) != string(b) || (x1.last.err == nil) != (tx.last.err == nil) || len(x1.last.updates) != len(tx.last.updates) {
					var k int
					fmt.Sscanf(strings.Split(trace[keep], ":")[1], "%d", &k)
					cul[s.cfgs[k].label] = true
				}
			}
			if len(cul) > 0 {
				labels = labels[:0]
				for l := range cul {
					labels = append(labels, l)
				}
				sort.Strings(labels)
				lab = strings.Join(labels, "+")
			}
		}
		if string(a) != string(b) {
			v.add("rejected-config-changes-later-decisions", "rejected-config-changes-later-decisions:"+lab, "with the rejected updates the history ends differently than without them (twin trace %v): %s", twin, firstDiff(string(a), string(b)))
		} else if (lastRP.err == nil) != (tx.last.err == nil) || len(lastRP.updates) != len(tx.last.updates) {
			v.add("rejected-config-changes-later-replies", "rejected-config-changes-later-replies:"+lab, "the last request is answered differently with and without the rejected updates (twin trace %v)", twin)
		}
		return v.out
	}
}

// ---------------------------------------------------------------------------
// C11

func oracleC11(x *exec, v *viols, pre, post *snap, rp *reply) {
	kind := strings.Split(rp.ev, ":")[0]
	if (kind != "restart" && kind != "restartcut") || rp.panic != "" || x.in.dead {
		return
	}
	tag := "restart"
	if kind == "restartcut" {
		tag = "restartcut-after-" + x.cutAfter
	} else if strings.Contains(rp.ev, ":") {
		tag = "restart:" + strings.SplitN(strings.SplitN(rp.ev, ":", 2)[1], "=", 2)[0]
	}
	if rp.err != nil {
		v.add("restart-fails", "restart-fails:"+tag, "%s: %v", rp.ev, rp.err)
		return
	}
	verifCounters["c11_restarts_judged"]++
	holds := func(id string) []string {
		var h []string
		if post.TA != nil {
			for _, g := range post.TA.Grants {
				if g.ID == id {
					h = append(h, "grant in "+g.Pool)
				}
			}
		}
		if post.BL != nil {
			for _, b := range post.BL.Balloons {
				for _, cid := range b.Containers {
					if cid == id {
						h = append(h, "member of "+b.Name)
					}
				}
			}
		}
		if _, ok := post.MemZone[id]; ok {
			h = append(h, "memory allocation")
		}
		return h
	}
	all := append(append([]*wctr{}, x.w.ctrs...), x.w.old...)
	for _, c := range all {
		if c.life == lifeNone {
			continue
		}
		h := holds(c.id())
		_, cached := post.Cache[c.id()]
		switch {
		case c.live():
			hasCPU := false
			for _, s := range h {
				if s != "memory allocation" {
					hasCPU = true
				}
			}
			if !hasCPU {
				v.add("live-container-without-allocation", "live-container-without-allocation:"+tag, "after %s the runtime reports %s as %s but it holds %v", rp.ev, c.id(), lifeNames[c.life], h)
			}
		case c.life == lifeStopped:
			if len(h) > 0 {
				v.add("stopped-container-holds-resources", "stopped-container-holds-resources:"+tag, "after %s the runtime reports %s as stopped but it holds %v", rp.ev, c.id(), h)
			}
		default: // removed, failed: unknown to the runtime
			if len(h) > 0 {
				v.add("unknown-container-holds-resources", "unknown-container-holds-resources:"+tag, "after %s the runtime does not know %s but it holds %v", rp.ev, c.id(), h)
			}
			if cached {
				v.add("unknown-container-not-purged", "unknown-container-not-purged:"+tag, "after %s the runtime does not know %s but it is still in the cache", rp.ev, c.id())
			}
		}
	}
	for _, p := range x.w.pods {
		known := p.life == lifeRunning || p.life == lifeStopped
		cached := false
		for _, id := range post.Pods {
			if id == p.slot {
				cached = true
			}
		}
		if !known && cached {
			v.add("unknown-pod-not-purged", "unknown-pod-not-purged:"+tag, "after %s the runtime does not know pod %s but it is still in the cache", rp.ev, p.slot)
		}
		if known && !cached {
			v.add("known-pod-missing", "known-pod-missing:"+tag, "after %s the runtime's pod %s is not in the cache", rp.ev, p.slot)
		}
	}
	sub := &viols{prop: "C11", scn: v.scn, trace: v.trace}
	if post.TA != nil {
		oracleC01(x, sub, pre, post, rp)
		oracleC03(x, sub, pre, post, rp)
	} else {
		oracleC02(x, sub, pre, post, rp)
	}
	oracleC04(x, sub, nil, post, rp)
	oracleC05(x, sub, pre, post, rp)
	for _, sv := range sub.out {
		if sv.Oracle == "exclusive-count" || sv.Oracle == "live-container-without-grant" {
			continue // reported above / eligibility is decided at admission
		}
		sv.Signature = "after-" + tag + "/" + sv.Signature
		sv.Oracle = "after-restart/" + sv.Oracle
		v.out = append(v.out, sv)
	}
}

// ---------------------------------------------------------------------------
// C14

// probeC14: after every history (in particular after refused requests) a canonical valid request sequence must still be served.
func probeC14(w *mc.Worker, s *scenario, dir string, trace []string, x *exec, post *snap) []mc.Violation {
	if x.in.dead {
		return nil
	}
	v := &viols{prop: "C14", scn: s.name, trace: append(append([]string{}, trace...), "<probe>")}
	pod := &wpod{slot: "pprobe", spec: &podSpec{name: "probe", ns: "default", qos: "BestEffort", ctrs: []ctrSpec{{name: "c", t: tBE}}}}
	c := &wctr{slot: "cprobe", spec: &pod.spec.ctrs[0], pod: pod}
	ctx := context.Background()
	p := x.in.m.nri
	var err error
	steps := []struct {
		name string
		fn   func()
	}{
		{"RunPodSandbox", func() { err = p.RunPodSandbox(ctx, pod.nri()) }},
		{"CreateContainer", func() {
			_, _, err = p.CreateContainer(ctx, pod.nri(), c.nri(api.ContainerState_CONTAINER_CREATED, res{}))
		}},
		{"StartContainer", func() { err = p.StartContainer(ctx, pod.nri(), c.nri(api.ContainerState_CONTAINER_RUNNING, res{})) }},
		{"StopContainer", func() { _, err = p.StopContainer(ctx, pod.nri(), c.nri(api.ContainerState_CONTAINER_RUNNING, res{})) }},
		{"RemoveContainer", func() { err = p.RemoveContainer(ctx, pod.nri(), c.nri(api.ContainerState_CONTAINER_STOPPED, res{})) }},
		{"StopPodSandbox", func() { err = p.StopPodSandbox(ctx, pod.nri()) }},
		{"RemovePodSandbox", func() { err = p.RemovePodSandbox(ctx, pod.nri()) }},
	}
	for _, st := range steps {
		err = nil
		pan, msg, where := mc.Guard(st.fn)
		if pan {
			v.add("probe-panics", "probe-panics@"+where+":"+st.name, "after the history a valid %s panics: %s", st.name, msg)
			x.in.dead = true
			break
		}
		if err != nil {
			v.add("probe-refused", "probe-refused:"+st.name, "after the history a valid %s of a fresh BestEffort container is refused: %v", st.name, err)
			break
		}
	}
	verifCounters["c14_probes"]++
	return v.out
}
