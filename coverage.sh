#!/bin/bash
# coverage.sh <check> <comma-separated package patterns> : run the quick tier of one check with coverage instrumentation of the
# named packages and list the functions of those packages the check never executes (vacuity detector; not part of any check).
# Example: ./coverage.sh C08 ./pkg/cpuallocator/...
cd "$(dirname "$0")"
id=$1; pkgs=$2
rm -rf .work/cover; cp evidence/$id.json /tmp/cov-$id.json
VERIF_COVERPKG=$pkgs ./check $id quick 2>&1 | grep "vrun\]"
cp /tmp/cov-$id.json evidence/$id.json
python3 - "$id" <<'PY'
import glob,sys,collections
blocks=collections.defaultdict(int)
for f in glob.glob('/verif/.work/cover/*.out'):
    for l in open(f):
        if l.startswith('mode:'): continue
        key,cnt=l.rsplit(' ',1)
        blocks[key]=max(blocks[key],int(cnt))
open('/verif/.work/cover/merged.out','w').write('mode: set\n'+''.join('%s %d\n'%(k,v) for k,v in sorted(blocks.items())))
PY
export GOFLAGS=-mod=mod GOPROXY=off GOSUMDB=off GOTOOLCHAIN=local
(cd ${VERIF_REPO:-/repo} && go tool cover -func=/verif/.work/cover/merged.out 2>/dev/null) | grep -v "_test.go\|verif" | awk '{print $NF, $1, $2}' | sort -n | head -${3:-40}
