#!/bin/bash
# coverage2.sh <check> <pkgs> [n] : like coverage.sh, for packages that receive injected non-test files (the cover tool does not
# see overlay-only files): runs against a scratch worktree into which the injected non-test files are physically copied.
cd "$(dirname "$0")"
wt=/tmp/cov-wt-$$
git -C /repo worktree add -q --detach $wt HEAD || exit 2
trap 'git -C /repo worktree remove --force '$wt' >/dev/null 2>&1' EXIT
(cd inject && find . -name '*.go' ! -name '*_test.go' | while read f; do mkdir -p $wt/$(dirname $f); cp $f $wt/$f; done)
VERIF_REPO=$wt ./coverage.sh "$@"
